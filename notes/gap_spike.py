# Throw-away spike kept as a design note (DESIGN.md section 2 / Appendix A): hand encoding of the
# getGapAckBlocks loop (receive_payload_queue.go) with the invariant I0-I7, hypotheses instantiated at
# ground terms (what the VC generator will do), one QF_ABV query per goal clause and CFG edge.
# Usage: python3 gap_spike.py [goal-prefix ...]   (writes *.smt2 into the current directory)
import subprocess, time, sys, itertools
PRE = r'''
(define-sort U32 () (_ BitVec 32))
(define-sort U64 () (_ BitVec 64))
(define-fun snaLT ((a U32) (b U32)) Bool (or (and (bvult a b) (bvult (bvsub b a) #x80000000)) (and (bvugt a b) (bvugt (bvsub a b) #x80000000))))
(define-fun snaGT ((a U32) (b U32)) Bool (or (and (bvult a b) (bvuge (bvsub b a) #x80000000)) (and (bvugt a b) (bvule (bvsub a b) #x80000000))))
(define-fun snaLTE ((a U32) (b U32)) Bool (or (= a b) (snaLT a b)))
(declare-const cum U32)
(declare-const tail U32)
(declare-const L U64)
(declare-const maxOff U32)
(declare-const bm (Array U64 U64))
(define-fun T () U32 (bvsub tail cum))
(define-fun ringpos ((t U32)) U64 (bvand ((_ zero_extend 32) (bvlshr t #x00000006)) (bvsub L #x0000000000000001)))
(define-fun bitset ((t U32)) Bool (= #b1 ((_ extract 0 0) (bvlshr (select bm (ringpos t)) ((_ zero_extend 32) (bvand t #x0000003f))))))
(define-fun R ((o U32)) Bool (and (bvuge o #x00000001) (bvule o T) (bitset (bvadd cum o))))
; RI facts
(assert (bvugt L #x0000000000000000))
(assert (bvule L #x0000000000000400))
(assert (= (bvand L (bvsub L #x0000000000000001)) #x0000000000000000))
(define-fun ring32 () U32 ((_ extract 31 0) (bvshl L #x0000000000000006)))
(assert (bvule maxOff ring32))
(assert (bvule maxOff #x0000ffbf))
(assert (bvuge T #x00000001))
(assert (bvule T maxOff))
(assert (bitset tail))
'''

STATE = r'''
(declare-const tsn U32)
(declare-const fe Bool)
(declare-const s U32)
(declare-const n U32)
(declare-const bs (Array U32 U32))
(declare-const be (Array U32 U32))
(define-fun p () U32 (bvsub tsn cum))
(define-fun offset () U32 (bvand tsn #x0000003f))
(define-fun word () U64 (select bm (ringpos tsn)))
(define-fun wbit ((b U32)) Bool (= #b1 ((_ extract 0 0) (bvlshr word ((_ zero_extend 32) b)))))
(declare-const k0 U32)
(declare-const o0 U32)
'''
ONE="#x00000001"; ZERO="#x00000000"
def clauses(tsn,fe,s,n,bs,be):
    p=f"(bvsub {tsn} cum)"; lim=f"(ite {fe} {s} {p})"
    sel=lambda a,i: f"(select {a} {i})"
    last=f"(bvsub {n} {ONE})"
    C=[]
    C.append(("I0","", lambda: f"(and (bvuge {p} {ONE}) (bvule {p} (bvadd T #x00000040)) (=> {fe} (bvule {p} T)) (bvule {n} T))"))
    C.append(("I1a","k", lambda k: f"(=> (bvult {k} {n}) (and (bvuge {sel(bs,k)} {ONE}) (bvule {sel(bs,k)} {sel(be,k)}) (bvule {sel(be,k)} T)))"))
    C.append(("I1b","k", lambda k: f"(=> (and (bvult {k} {n}) (bvult (bvadd {k} {ONE}) {n})) (bvult (bvadd {sel(be,k)} {ONE}) {sel(bs,f'(bvadd {k} {ONE})')}))"))
    C.append(("I2","ko", lambda k,o: f"(=> (and (bvult {k} {n}) (bvule {sel(bs,k)} {o}) (bvule {o} {sel(be,k)})) (R {o}))"))
    C.append(("I3","k", lambda k: f"(=> (bvult {k} {n}) (and (not (R (bvadd {sel(be,k)} {ONE}))) (not (R (bvsub {sel(bs,k)} {ONE})))))"))
    C.append(("I4a","o", lambda o: f"(=> (and (= {n} {ZERO}) (bvuge {o} {ONE}) (bvult {o} {lim})) (not (R {o})))"))
    C.append(("I4b1","o", lambda o: f"(=> (and (bvugt {n} {ZERO}) (bvuge {o} {ONE}) (bvult {o} {sel(bs,ZERO)})) (not (R {o})))"))
    C.append(("I4b2","ko", lambda k,o: f"(=> (and (bvult {k} {n}) (bvult (bvadd {k} {ONE}) {n}) (bvult {sel(be,k)} {o}) (bvult {o} {sel(bs,f'(bvadd {k} {ONE})')})) (not (R {o})))"))
    C.append(("I4b3","o", lambda o: f"(=> (and (bvugt {n} {ZERO}) (bvult {sel(be,last)} {o}) (bvult {o} {lim})) (not (R {o})))"))
    C.append(("I5a","", lambda: f"(=> {fe} (and (bvuge {s} {ONE}) (bvule {s} {p}) (R {s}) (not (R (bvsub {s} {ONE}))) (=> (bvugt {n} {ZERO}) (bvult (bvadd {sel(be,last)} {ONE}) {s}))))"))
    C.append(("I5b","o", lambda o: f"(=> (and {fe} (bvule {s} {o}) (bvult {o} {p})) (R {o}))"))
    C.append(("I7","k", lambda k: f"(=> (bvult {k} {n}) (bvuge {sel(be,k)} (bvadd {k} {ONE})))"))
    C.append(("I6","", lambda: f"(=> (and (not {fe}) (bvugt {n} {ZERO})) (bvult {sel(be,last)} {p}))"))
    return C
def hyps(C, K, O):
    out=[]
    for nm,vs,fn in C:
        if vs=="": out.append(fn())
        elif vs=="k": out+= [fn(k) for k in K]
        elif vs=="o": out+= [fn(o) for o in O]
        else: out+= [fn(k,o) for k in K for o in O]
    return "".join(f"(assert {h})\n" for h in out)
def goal(c):
    nm,vs,fn=c
    if vs=="": g=fn()
    elif vs=="k": g=fn("k0")
    elif vs=="o": g=fn("o0")
    else: g=fn("k0","o0")
    return f"(assert (not {g}))\n(check-sat)\n"
def R4(X): return "".join(f"(assert (=> (and (bvugt (bvsub {x} cum) T) (bvule (bvsub {x} cum) ring32)) (not (bitset {x}))))\n" for x in X)
def bitchar(kind, B):
    # kind 'nz' or 'zb'
    v = "nzb" if kind=="nz" else "zb"
    pos = "(wbit {b})" if kind=="zb" else "(not (wbit {b}))"
    neg = "(not (wbit %s))"%v if kind=="zb" else "(wbit %s)"%v
    s=f"(declare-const {v} U32)\n(declare-const okf Bool)\n(assert (=> okf (and (bvule offset {v}) (bvule {v} #x0000003f) {neg})))\n"
    for b in B:
        s+=f"(assert (=> (and okf (bvule offset {b}) (bvult {b} {v})) {pos.format(b=b)}))\n"
        s+=f"(assert (=> (and (not okf) (bvule offset {b}) (bvule {b} #x0000003f)) {pos.format(b=b)}))\n"
    return s
def run(name, body):
    open(name+".smt2","w").write("(set-logic QF_ABV)\n"+body)
    res=[]
    for sn,cmd in (("z3-new",["z3-new","-T:60"]),("z3",["z3","-T:60"]),("cvc5",["cvc5","--tlimit=60000"])):
        t=time.time()
        out=subprocess.run(cmd+[name+".smt2"],capture_output=True,text=True).stdout.strip().split("\n")[0]
        res.append(f"{sn}:{out}:{time.time()-t:.1f}s")
    print(name, *res, flush=True)

EDGES={
 "Aok": dict(pre="(assert (not fe))\n", kind="nz", ok="(assert okf)\n", defs='''
(define-fun d () U32 (bvsub nzb offset))
(define-fun tsn2 () U32 (bvadd tsn d))
(define-fun s2 () U32 ((_ zero_extend 16) ((_ extract 15 0) (bvsub (bvadd tsn d) cum))))
''', nxt=("tsn2","true","s2","n","bs","be"), post=False),
 "Ano": dict(pre="(assert (not fe))\n", kind="nz", ok="(assert (not okf))\n", defs='''
(define-fun tsn2 () U32 (bvadd tsn (bvsub #x00000040 offset)))
''', nxt=("tsn2","false","s","n","bs","be"), post=False),
 "Bok": dict(pre="(assert fe)\n", kind="zb", ok="(assert okf)\n", defs='''
(define-fun d () U32 (bvsub zb offset))
(define-fun e2 () U32 ((_ zero_extend 16) ((_ extract 15 0) (bvsub (bvsub (bvadd tsn d) #x00000001) cum))))
(define-fun tsn2 () U32 (bvadd tsn d))
(assert (snaLTE tsn2 tail))
(assert (not (snaGT tsn2 tail)))
(define-fun bs2 () (Array U32 U32) (store bs n s))
(define-fun be2 () (Array U32 U32) (store be n e2))
(define-fun n2 () U32 (bvadd n #x00000001))
''', nxt=("tsn2","false","s","n2","bs2","be2"), post=False),
 "Bno": dict(pre="(assert fe)\n", kind="zb", ok="(assert (not okf))\n", defs='''
(define-fun tsn2 () U32 (bvadd tsn (bvsub #x00000040 offset)))
(assert (not (snaGT tsn2 tail)))
''', nxt=("tsn2","true","s","n","bs","be"), post=False),
 "Bbrk": dict(pre="(assert fe)\n", kind="zb", ok="", defs='''
(define-fun tsn2 () U32 (ite okf (bvadd tsn (bvsub zb offset)) (bvadd tsn (bvsub #x00000040 offset))))
(assert (not (and okf (snaLTE tsn2 tail))))
(assert (snaGT tsn2 tail))
(define-fun e2 () U32 ((_ zero_extend 16) ((_ extract 15 0) (bvsub tail cum))))
(define-fun bs2 () (Array U32 U32) (store bs n s))
(define-fun be2 () (Array U32 U32) (store be n e2))
(define-fun n2 () U32 (bvadd n #x00000001))
(define-fun tailnext () U32 (bvadd tail #x00000001))
''', nxt=("tailnext","false","#x00000000","n2","bs2","be2"), post=True),
 "Exit": dict(pre="(assert (not (snaLTE tsn tail)))\n(define-fun tailnext () U32 (bvadd tail #x00000001))\n", kind=None, ok="", defs="", nxt=("tailnext","false","#x00000000","n","bs","be"), post=True, noguard=True),
}
# instantiation term sets
K=["k0","(bvadd k0 #x00000001)","(bvsub k0 #x00000001)","(bvsub n #x00000001)","n","#x00000000","(bvsub n #x00000002)"]
O=["o0","(bvadd o0 #x00000001)","(bvsub o0 #x00000001)","p","s","T","(bvadd T #x00000001)","(bvsub s #x00000001)",
   "(select bs k0)","(select be k0)","(bvadd (select be k0) #x00000001)","(bvsub (select bs k0) #x00000001)",
   "(select be (bvsub n #x00000001))","(bvadd (select be (bvsub n #x00000001)) #x00000001)","(bvsub (select bs (bvadd k0 #x00000001)) #x00000001)"]
def job(en, e, c):
    extraO=[]; B=[]
    body = PRE + STATE + e["pre"]
    if not e.get("noguard"): body += "(assert (snaLTE tsn tail))\n"
    if e["kind"]:
        v = "nzb" if e["kind"]=="nz" else "zb"
        extraO=["(bvsub tsn2 cum)","(bvsub (bvsub tsn2 cum) #x00000001)"]
        if "(define-fun s2" in e["defs"]: extraO+=["s2","(bvsub s2 #x00000001)"]
        if "(define-fun e2" in e["defs"]: extraO+=["e2","(bvadd e2 #x00000001)"]
        B=["(bvadd offset (bvsub o0 p))","(bvadd offset (bvsub (bvadd o0 #x00000001) p))","(bvadd offset (bvsub (bvsub o0 #x00000001) p))", "(bvadd offset (bvsub T p))", v, "(bvsub %s #x00000001)"%v, "(bvadd offset (bvsub s p))", "offset","#x0000003f"]
        body += bitchar(e["kind"], B) + e["ok"]
    body += e["defs"]
    Oall = O+extraO
    X = [f"(bvadd cum {o})" for o in Oall] + ["tsn","tsn2" if e["kind"] else "tsn"]
    body += R4(X)
    body += hyps(clauses("tsn","fe","s","n","bs","be"), K, Oall)
    body += goal(c)
    run(en+"_"+c[0], body)
sel=sys.argv[1:]
from concurrent.futures import ThreadPoolExecutor
with ThreadPoolExecutor(5) as ex:
    for en,e in EDGES.items():
        cs = clauses(*e["nxt"])
        if e["post"]: cs=[c for c in cs if c[0] not in ("I0","I5a","I5b","I6","I7")]
        for c in cs:
            nm=en+"_"+c[0]
            if sel and not any(nm.startswith(x) for x in sel): continue
            ex.submit(job,en,e,c)
