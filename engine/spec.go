package main

// Translation of contract expressions (go/ast + go/types) to terms.

import (
	"fmt"
	"os"
	"go/ast"
	"go/token"
	"go/types"
	"strings"

	"golang.org/x/tools/go/ssa"
)

type specEnv struct {
	x     *fnExec
	vars  map[types.Object]Val
	cur   *State
	old   *State
	info  *types.Info
	fr    *frame          // for resolving locals (may be nil)
	at    ssa.Instruction // resolution point (may be nil)
	loop  *loopInfo       // when resolving at a loop header
	iter  *loopInfo       // the loop whose current iteration iterStart() refers to
	depth int
	inOld bool
	callee bool // the clause is a callee's postcondition assumed at a call site: ghosts about the callee's own execution are unknown here
}

func (e *specEnv) isParam(v *types.Var) bool {
	for _, p := range e.fr.fn.Params {
		if p.Object() == v {
			return true
		}
	}
	return false
}

func (e *specEnv) fail(n ast.Node, format string, a ...any) {
	panic(fmt.Sprintf("spec: %s: %s", e.x.P.Fset.Position(n.Pos()), fmt.Sprintf(format, a...)))
}

// clauseGoal translates a clause as a proof goal: bound variables become fresh constants.
func (e *specEnv) clauseGoal(cl *Clause) (goal *Term, hyp *Term, skolems []*Term) {
	for _, b := range cl.Bound {
		if b.Obj == nil {
			continue
		}
		v := freshVal("sk_"+b.Name, b.Obj.Type())
		e.vars[b.Obj] = v
		skolems = append(skolems, flatten(v)...)
	}
	t := e.boolExpr(cl.Expr)
	return t, True, skolems
}

// assumeClause adds the clause as a hypothesis in state st (quantified clauses become QFacts).
func (e *specEnv) assumeClause(cl *Clause, st *State) {
	if len(cl.Bound) == 0 {
		n := len(e.x.facts)
		e.x.assume(st, e.boolExpr(cl.Expr))
		for i := n; i < len(e.x.facts); i++ {
			e.x.facts[i].origin = cl.Kind + "#" + cl.Label
		}
		return
	}
	var bvs []*Term
	for _, b := range cl.Bound {
		if b.Obj == nil {
			return
		}
		ls := leaves(b.Obj.Type())
		if len(ls) != 1 {
			e.x.note("bound variable %s of composite type not supported; clause dropped as hypothesis", b.Name)
			return
		}
		e.x.seq++
		bv := BVar(fmt.Sprintf("%s_%d", b.Name, e.x.seq), ls[0].sort)
		bvs = append(bvs, bv)
		ts := []*Term{bv}
		e.vars[b.Obj] = unflatten(b.Obj.Type(), &ts)
	}
	body := e.boolExpr(cl.Expr)
	e.x.qfacts = append(e.x.qfacts, &QFact{seq: e.x.next(), pc: st.pc, vars: bvs, body: body, origin: cl.Kind + "#" + cl.Label})
}

func (e *specEnv) boolExpr(n ast.Expr) *Term {
	v := e.expr(n)
	if v.K != VScalar || v.T.S != SBool {
		e.fail(n, "expected boolean expression")
	}
	return v.T
}

func (e *specEnv) typeOf(n ast.Expr) types.Type {
	tv, ok := e.info.Types[n]
	if !ok {
		if id, ok := n.(*ast.Ident); ok {
			if o := e.info.Uses[id]; o != nil {
				return o.Type()
			}
		}
		e.fail(n, "no type information")
	}
	return tv.Type
}

func (e *specEnv) lookupObj(n ast.Node, obj types.Object) Val {
	if v, ok := e.vars[obj]; ok {
		// in-body clauses (invariants, at-call/at-store asserts) see the current value of a reassigned parameter;
		// old(p) and pre/postconditions see its entry value
		if e.fr != nil && !e.inOld {
			if pv, isVar := obj.(*types.Var); isVar && e.isParam(pv) {
				if cur, ok := e.x.resolveLocal(e, pv); ok {
					return cur
				}
			}
		}
		return v
	}
	switch o := obj.(type) {
	case *types.Var:
		if o.Pkg() != nil && o.Parent() == o.Pkg().Scope() {
			// package-level variable
			p := Val{K: VPtr, Prefix: "G:" + o.Name(), Ref: e.x.globalRef(o.Name())}
			return e.x.load(e.cur, p, o.Type())
		}
		if e.fr != nil {
			if v, ok := e.x.resolveLocal(e, o); ok {
				return v
			}
		}
		e.fail(n, "cannot resolve variable %s here", o.Name())
	case *types.Nil:
		return zeroVal(types.Typ[types.UntypedNil])
	}
	e.fail(n, "unsupported object %s (%T)", obj.Name(), obj)
	return Val{}
}

func (e *specEnv) expr(n ast.Expr) Val {
	if tv, ok := e.info.Types[n]; ok && tv.Value != nil {
		t := tv.Type
		if b, ok := t.Underlying().(*types.Basic); ok && b.Info()&types.IsUntyped != 0 {
			t = types.Default(t)
		}
		return e.x.constVal(tv.Value, t)
	}
	switch t := n.(type) {
	case *ast.ParenExpr:
		return e.expr(t.X)
	case *ast.Ident:
		if t.Name == "nil" {
			return zeroVal(e.typeOf(n))
		}
		if t.Name == "true" {
			return scalar(True, types.Typ[types.Bool])
		}
		if t.Name == "false" {
			return scalar(False, types.Typ[types.Bool])
		}
		obj := e.info.Uses[t]
		if obj == nil {
			obj = e.info.Defs[t]
		}
		if obj == nil {
			e.fail(n, "unresolved identifier %s", t.Name)
		}
		return e.lookupObj(n, obj)
	case *ast.UnaryExpr:
		v := e.expr(t.X)
		switch t.Op {
		case token.NOT:
			return scalar(Not(v.T), e.typeOf(n))
		case token.SUB:
			if v.T.S.K == KFP {
				return scalar(mk("fp.neg", v.T.S, v.T), e.typeOf(n))
			}
			return scalar(BVNeg(v.T), e.typeOf(n))
		case token.XOR:
			return scalar(BVNot(v.T), e.typeOf(n))
		case token.ADD:
			return v
		case token.AND:
			e.fail(n, "address-of in spec")
		}
	case *ast.BinaryExpr:
		switch t.Op {
		case token.LAND:
			return scalar(And(e.boolExpr(t.X), e.boolExpr(t.Y)), types.Typ[types.Bool])
		case token.LOR:
			return scalar(Or(e.boolExpr(t.X), e.boolExpr(t.Y)), types.Typ[types.Bool])
		}
		a, b := e.expr(t.X), e.expr(t.Y)
		ta, tb := e.typeOf(t.X), e.typeOf(t.Y)
		// untyped nil operand: adapt
		if isNilType(ta) {
			a = zeroVal(tb)
			ta = tb
		}
		if isNilType(tb) {
			b = zeroVal(ta)
			tb = ta
		}
		if t.Op == token.SHL || t.Op == token.SHR {
			// shift count may be of any integer type; constant counts get uint
			if b.T.S.K == KBV && isSigned(tb) {
				// negative counts are not expected in specs
			}
		} else if a.K == VScalar && b.K == VScalar && a.T.S != b.T.S {
			e.fail(n, "operand sorts differ: %s vs %s", a.T.S, b.T.S)
		}
		return e.x.binop(nil, e.cur, t.Op, a, b, ta, tb, e.typeOf(n), nil)
	case *ast.SelectorExpr:
		if sel, ok := e.info.Selections[t]; ok {
			if sel.Kind() != types.FieldVal {
				e.fail(n, "method value in spec")
			}
			v := e.expr(t.X)
			return e.selectPath(n, v, e.typeOf(t.X), sel.Index())
		}
		// qualified identifier
		obj := e.info.Uses[t.Sel]
		if obj == nil {
			e.fail(n, "unresolved selector")
		}
		return e.lookupObj(n, obj)
	case *ast.StarExpr:
		v := e.expr(t.X)
		return e.x.load(e.cur, v, e.typeOf(n))
	case *ast.IndexExpr:
		xv := e.expr(t.X)
		xt := e.typeOf(t.X)
		switch u := xt.Underlying().(type) {
		case *types.Slice:
			iv := e.expr(t.Index)
			idx := to64(iv.T, isSigned(e.typeOf(t.Index)))
			p := Val{K: VPtr, Prefix: "E:" + typeName(u.Elem()), Ref: xv.base(), Idx: BVBin("bvadd", xv.off(), idx)}
			return e.x.load(e.cur, p, u.Elem())
		case *types.Map:
			if _, ok := mapKeySort(u); !ok {
				e.fail(n, "map with composite key")
			}
			v, _ := e.x.mapGet(e.cur, u, xv.T, keyTerm(e.expr(t.Index)))
			return v
		case *types.Pointer:
			if arr, ok := u.Elem().Underlying().(*types.Array); ok {
				iv := e.expr(t.Index)
				idx := to64(iv.T, isSigned(e.typeOf(t.Index)))
				off := idx
				if xv.Idx != nil {
					off = BVBin("bvadd", xv.Idx, idx)
				}
				p := Val{K: VPtr, Prefix: "E:" + typeName(arr.Elem()), Ref: xv.Ref, Idx: off}
				return e.x.load(e.cur, p, arr.Elem())
			}
		}
		// generic instantiation f[T]
		if _, ok := e.info.Instances[identOf(t.X)]; ok {
			e.fail(n, "explicit instantiation in spec")
		}
		e.fail(n, "index on %s", xt)
	case *ast.SliceExpr:
		xv := e.expr(t.X)
		if _, ok := e.typeOf(t.X).Underlying().(*types.Slice); !ok {
			e.fail(n, "slice expression on non-slice")
		}
		get := func(x ast.Expr, def *Term) *Term {
			if x == nil {
				return def
			}
			return to64(e.expr(x).T, isSigned(e.typeOf(x)))
		}
		lo := get(t.Low, BVU(0, 64))
		hi := get(t.High, xv.len())
		mx := get(t.Max, xv.cap())
		return sliceVal(xv.base(), BVBin("bvadd", xv.off(), lo), BVBin("bvsub", hi, lo), BVBin("bvsub", mx, lo), e.typeOf(n))
	case *ast.CallExpr:
		return e.callExpr(t)
	case *ast.TypeAssertExpr:
		// x.(*T) on an interface value: the pointer it holds, meaningful only under a typeIs(x, *T) guard
		if pt, ok := e.typeOf(n).(*types.Pointer); ok && t.Type != nil {
			xv := e.expr(t.X)
			if xv.K == VIface {
				return Val{K: VPtr, Prefix: canonPrefix(pt.Elem()), Ref: xv.Fs[1].T, Ty: pt}
			}
		}
		e.fail(n, "type assertion in spec: only x.(*T) on an interface value (guard it with typeIs)")
	}
	e.fail(n, "unsupported expression %T", n)
	return Val{}
}

func identOf(x ast.Expr) *ast.Ident {
	switch t := x.(type) {
	case *ast.Ident:
		return t
	case *ast.SelectorExpr:
		return t.Sel
	}
	return nil
}

func isNilType(t types.Type) bool {
	b, ok := t.(*types.Basic)
	return ok && b.Kind() == types.UntypedNil
}

// addrOf computes the address (heap key prefix and owner object) of a field selector without loading it.
func (e *specEnv) addrOf(n ast.Expr) Val {
	for {
		if p, ok := n.(*ast.ParenExpr); ok {
			n = p.X
			continue
		}
		break
	}
	sel, ok := n.(*ast.SelectorExpr)
	if !ok {
		e.fail(n, "held() needs a field selector")
	}
	s, ok := e.info.Selections[sel]
	if !ok || s.Kind() != types.FieldVal {
		e.fail(n, "held() needs a field selector")
	}
	v := e.expr(sel.X)
	t := e.typeOf(sel.X)
	path := s.Index()
	for i, idx := range path {
		pt, ok := t.Underlying().(*types.Pointer)
		if !ok || v.K != VPtr {
			e.fail(n, "held(): base is not a pointer")
		}
		f := pt.Elem().Underlying().(*types.Struct).Field(idx)
		addr := Val{K: VPtr, Prefix: v.Prefix + "." + f.Name(), Ref: v.Ref, Idx: v.Idx}
		if i == len(path)-1 {
			return addr
		}
		if _, isStruct := f.Type().Underlying().(*types.Struct); isStruct {
			v, t = addr, types.NewPointer(f.Type())
		} else {
			v, t = e.x.load(e.cur, addr, f.Type()), f.Type()
		}
	}
	e.fail(n, "held(): empty path")
	return Val{}
}

// selectPath follows a field selection path (with implicit dereferences) from value v of type t.
func (e *specEnv) selectPath(n ast.Node, v Val, t types.Type, path []int) Val {
	interior := false
	for _, idx := range path {
		interior = false
		switch u := t.Underlying().(type) {
		case *types.Pointer:
			st := u.Elem().Underlying().(*types.Struct)
			f := st.Field(idx)
			if v.K != VPtr {
				e.fail(n, "selector base is not a pointer value")
			}
			addr := Val{K: VPtr, Prefix: v.Prefix + "." + f.Name(), Ref: v.Ref, Idx: v.Idx}
			if _, isStruct := f.Type().Underlying().(*types.Struct); isStruct {
				// keep as interior pointer for further selection; load lazily
				v = addr
				t = types.NewPointer(f.Type())
				interior = true
				continue
			}
			v = e.x.load(e.cur, addr, f.Type())
			t = f.Type()
		case *types.Struct:
			f := u.Field(idx)
			if v.K == VPtr {
				// interior pointer produced above (should have pointer type) – defensive
				addr := Val{K: VPtr, Prefix: v.Prefix + "." + f.Name(), Ref: v.Ref, Idx: v.Idx}
				v = e.x.load(e.cur, addr, f.Type())
			} else {
				v = v.Fs[idx]
			}
			t = f.Type()
		default:
			e.fail(n, "selection on %s", t)
		}
	}
	// if we ended on an interior pointer to an embedded struct, materialise the struct value
	if pt, ok := t.(*types.Pointer); ok && v.K == VPtr && interior {
		if _, isStruct := pt.Elem().Underlying().(*types.Struct); isStruct && len(path) > 0 {
			// was the selected field itself a struct (by value)? then load it
			return e.x.load(e.cur, v, pt.Elem())
		}
	}
	return v
}

func (e *specEnv) withState(cur *State, f func() Val) Val {
	saved, savedOld := e.cur, e.inOld
	e.cur = cur
	e.inOld = true
	defer func() { e.cur, e.inOld = saved, savedOld }()
	return f()
}

func (e *specEnv) callExpr(c *ast.CallExpr) Val {
	// conversion?
	if tv, ok := e.info.Types[c.Fun]; ok && tv.IsType() {
		v := e.expr(c.Args[0])
		from := e.typeOf(c.Args[0])
		to := tv.Type
		if isNilType(from) {
			return zeroVal(to)
		}
		if _, ok := to.Underlying().(*types.Basic); ok {
			if _, ok2 := from.Underlying().(*types.Basic); ok2 {
				return e.x.convert(v, from, to)
			}
		}
		return retype(v, to)
	}
	id := identOf(c.Fun)
	if id == nil {
		e.fail(c, "unsupported call form")
	}
	obj := e.info.Uses[id]
	switch o := obj.(type) {
	case *types.Builtin:
		switch o.Name() {
		case "len":
			v := e.expr(c.Args[0])
			switch u := e.typeOf(c.Args[0]).Underlying().(type) {
			case *types.Slice:
				return scalar(v.len(), types.Typ[types.Int])
			case *types.Map:
				return scalar(App("maplen_"+typeName(u), BV(64), v.T, e.x.mapDomTerm(e.cur, u, v.T)), types.Typ[types.Int])
			case *types.Basic:
				return scalar(App("strlen", BV(64), v.T), types.Typ[types.Int])
			}
		case "cap":
			v := e.expr(c.Args[0])
			return scalar(v.cap(), types.Typ[types.Int])
		case "min", "max":
			r := e.expr(c.Args[0])
			t := e.typeOf(c.Args[0])
			for _, a := range c.Args[1:] {
				av := e.expr(a)
				var cond *Term
				lt := o.Name() == "min"
				switch {
				case r.T.S.K == KFP && lt:
					cond = FPCmp("fp.lt", av.T, r.T)
				case r.T.S.K == KFP:
					cond = FPCmp("fp.gt", av.T, r.T)
				case isSigned(t) && lt:
					cond = BVCmp("bvslt", av.T, r.T)
				case isSigned(t):
					cond = BVCmp("bvsgt", av.T, r.T)
				case lt:
					cond = BVCmp("bvult", av.T, r.T)
				default:
					cond = BVCmp("bvugt", av.T, r.T)
				}
				r = scalar(Ite(cond, av.T, r.T), e.typeOf(c))
			}
			return r
		}
		e.fail(c, "builtin %s in spec", o.Name())
	case *types.Func:
		name := o.Name()
		if o.Pkg() == e.x.P.Pkg.Types {
			switch name {
			case "old":
				return e.withState(e.old, func() Val { return e.expr(c.Args[0]) })
			case "iterStart":
				// value of the expression in the heap as it was at the start of the current loop iteration
				if e.iter == nil || e.iter.head == nil {
					e.fail(c, "iterStart outside a loop clause")
				}
				if id, ok := c.Args[0].(*ast.Ident); ok && e.fr != nil {
					// a loop-carried local: its value at the start of the iteration is the header phi
					if v, isVar := e.info.Uses[id].(*types.Var); isVar && !v.IsField() {
						for _, ph := range e.x.headerPhis(e.iter) {
							if ph.Comment == v.Name() {
								if pv, have := e.fr.env[ph]; have {
									return pv
								}
							}
						}
					}
				}
				return e.withState(e.iter.head, func() Val { return e.expr(c.Args[0]) })
			case "implies":
				return scalar(Implies(e.boolExpr(c.Args[0]), e.boolExpr(c.Args[1])), types.Typ[types.Bool])
			case "unchanged":
				cur := e.expr(c.Args[0])
				old := e.withState(e.old, func() Val { return e.expr(c.Args[0]) })
				return scalar(e.x.valEq(cur, old), types.Typ[types.Bool])
			case "ite":
				cnd := e.boolExpr(c.Args[0])
				return iteVal(cnd, e.expr(c.Args[1]), e.expr(c.Args[2]))
			case "typeIs":
				// typeIs(x, (*T)(nil)) : dynamic type of interface x equals static type of second argument
				v := e.expr(c.Args[0])
				return scalar(Eq(v.Fs[0].T, e.x.typeTag(e.typeOf(c.Args[1]))), types.Typ[types.Bool])
			case "held":
				p := e.addrOf(c.Args[0])
				return scalar(Select(e.cur.arr("X:held", SBool), mutexID(p)), types.Typ[types.Bool])
			case "visited":
				// visited(m, k): key k was already produced by the current range over map m
				mv := e.expr(c.Args[0])
				mt, ok := e.typeOf(c.Args[0]).Underlying().(*types.Map)
				if !ok {
					e.fail(c, "visited(map, key)")
				}
				ks, sok := mapKeySort(mt)
				if !sok {
					e.fail(c, "visited: map with composite key")
				}
				a := e.x.mapArr(e.cur, "X:visited:"+typeName(mt), ks, SBool)
				return scalar(Select(Select(a, mv.T), keyTerm(e.expr(c.Args[1]))), types.Typ[types.Bool])
			case "has":
				// has(m, k): key k is present in map m
				mv := e.expr(c.Args[0])
				mt, ok := e.typeOf(c.Args[0]).Underlying().(*types.Map)
				if !ok {
					e.fail(c, "has(map, key)")
				}
				if _, sok := mapKeySort(mt); !sok {
					e.fail(c, "has: map with composite key")
				}
				_, dom := e.x.mapGet(e.cur, mt, mv.T, keyTerm(e.expr(c.Args[1])))
				return scalar(dom, types.Typ[types.Bool])
			case "holdsNonNil":
				// holdsNonNil(x): the interface value x is nil or holds a non-nil pointer (never a typed nil)
				v := e.expr(c.Args[0])
				if v.K != VIface {
					e.fail(c, "holdsNonNil(interface)")
				}
				return scalar(Or(Eq(v.Fs[0].T, BVU(0, 64)), Not(Eq(v.Fs[1].T, BVU(0, 64)))), types.Typ[types.Bool])
			case "lastInt":
				// lastInt("callee"): the integer result of the most recent call of that callee in this execution (as int64)
				bl, ok := c.Args[0].(*ast.BasicLit)
				if !ok {
					e.fail(c, "lastInt needs a string literal")
				}
				name := strings.Trim(bl.Value, "\"`")
				if e.callee {
					return scalar(Fresh("lastInt", BV(64)), types.Typ[types.Int64])
				}
				v, have := e.x.lastRes[name]
				if !have || v.K != VScalar || v.T == nil || v.T.S.K != KBV {
					e.fail(c, "no integer result recorded for a call of %s before this point", name)
				}
				return scalar(SignExt(v.T, 64), types.Typ[types.Int64])
			case "called":
				// called("callee"): that callee has been called since the function under verification was entered (on this path)
				bl, ok := c.Args[0].(*ast.BasicLit)
				if !ok {
					e.fail(c, "called needs a string literal")
				}
				name := strings.Trim(bl.Value, "\"`")
				if e.callee {
					return scalar(Fresh("called", SBool), types.Typ[types.Bool])
				}
				if e.x.P.FuncByKey[name] == nil {
					e.fail(c, "called(%q): no such function in the package", name)
				}
				id := calledID(name)
				return scalar(Not(Eq(Select(e.cur.arr("X:called", BV(64)), id), Select(e.old.arr("X:called", BV(64)), id))), types.Typ[types.Bool])
			case "lastNil":
				// lastNil("callee"): the pointer returned by the most recent call of that callee in this execution was nil
				bl, ok := c.Args[0].(*ast.BasicLit)
				if !ok {
					e.fail(c, "lastNil needs a string literal")
				}
				name := strings.Trim(bl.Value, "\"`")
				if e.callee {
					return scalar(Fresh("lastNil", SBool), types.Typ[types.Bool])
				}
				v, have := e.x.lastRes[name]
				if !have {
					// no call of that callee in this execution: nothing was returned, so nothing nil was returned
					return scalar(False, types.Typ[types.Bool])
				}
				if v.K != VPtr || v.Ref == nil {
					e.fail(c, "the result recorded for %s is not a pointer", name)
				}
				return scalar(Eq(v.Ref, BVU(0, 64)), types.Typ[types.Bool])
			case "lastBool":
				// lastBool("callee"): the boolean result of the most recent call of that callee in this execution
				bl, ok := c.Args[0].(*ast.BasicLit)
				if !ok {
					e.fail(c, "lastBool needs a string literal")
				}
				name := strings.Trim(bl.Value, "\"`")
				if e.callee {
					return scalar(Fresh("lastBool", SBool), types.Typ[types.Bool])
				}
				v, have := e.x.lastRes[name]
				if !have || v.K != VScalar || v.T == nil || v.T.S != SBool {
					e.fail(c, "no boolean result recorded for a call of %s before this point", name)
				}
				return scalar(v.T, types.Typ[types.Bool])
			case "recvs":
				ch := e.expr(c.Args[0])
				return scalar(Select(e.cur.arr("X:recvs", BV(64)), ch.T), types.Typ[types.Int])
			case "sends":
				ch := e.expr(c.Args[0])
				return scalar(Select(e.cur.arr("X:sends", BV(64)), ch.T), types.Typ[types.Int])
			case "isNew":
				v := e.expr(c.Args[0])
				switch v.K {
				case VPtr:
					return scalar(App("newobj", SBool, v.Ref), types.Typ[types.Bool])
				case VSlice:
					return scalar(App("newobj", SBool, v.base()), types.Typ[types.Bool])
				}
				e.fail(c, "isNew needs a pointer or slice")
			case "ifaceIs":
				// ifaceIs(x, p): interface value x holds exactly the pointer p
				v := e.expr(c.Args[0])
				pv := e.expr(c.Args[1])
				if v.K != VIface || pv.K != VPtr {
					e.fail(c, "ifaceIs(interface, pointer)")
				}
				return scalar(And(Eq(v.Fs[0].T, e.x.typeTag(e.typeOf(c.Args[1]))), Eq(v.Fs[1].T, pv.Ref)), types.Typ[types.Bool])
			case "isNaN":
				return scalar(mk("fp.isNaN", SBool, e.expr(c.Args[0]).T), types.Typ[types.Bool])
			case "isInf":
				return scalar(mk("fp.isInfinite", SBool, e.expr(c.Args[0]).T), types.Typ[types.Bool])
			case "feq":
				return scalar(StructEq(e.expr(c.Args[0]).T, e.expr(c.Args[1]).T), types.Typ[types.Bool])
			case "sameSlice":
				a, b := e.expr(c.Args[0]), e.expr(c.Args[1])
				return scalar(And(Eq(a.base(), b.base()), Eq(a.off(), b.off()), Eq(a.len(), b.len())), types.Typ[types.Bool])
			case "suffixOf":
				// suffixOf(a, b): slice a is a suffix of slice b (same backing array, same end, starts at or after b's start)
				a, b := e.expr(c.Args[0]), e.expr(c.Args[1])
				return scalar(And(Eq(a.base(), b.base()), BVCmp("bvuge", a.off(), b.off()),
					Eq(BVBin("bvadd", a.off(), a.len()), BVBin("bvadd", b.off(), b.len()))), types.Typ[types.Bool])
			case "sameElems":
				// sameElems(a, b): slices a (current state) and b (current state) have equal length and elements — quantifier-free via row equality when offsets match
				e.fail(c, "sameElems not supported")
			}
		}
		if o.Pkg() != e.x.P.Pkg.Types {
			// selected externals usable in specs
			full := o.FullName()
			switch full {
			case "math.Min", "math.Max", "math.Abs":
				var args []Val
				for _, a := range c.Args {
					args = append(args, e.expr(a))
				}
				a := args[0].T
				switch full {
				case "math.Abs":
					return scalar(mk("fp.abs", SFP64, a), types.Typ[types.Float64])
				}
				b := args[1].T
				op := "fp.min"
				if full == "math.Max" {
					op = "fp.max"
				}
				isNaN := Or(mk("fp.isNaN", SBool, a), mk("fp.isNaN", SBool, b))
				return scalar(Ite(isNaN, mkN("fpnan", "(_ NaN 11 53)", SFP64), mk(op, SFP64, a, b)), types.Typ[types.Float64])
			}
			e.fail(c, "external function %s in spec", full)
		}
		return e.inlineCall(c, o)
	}
	e.fail(c, "call of %s (%T)", id.Name, obj)
	return Val{}
}

// inlineCall evaluates a call to a real (pure, loop-free) package function by symbolic execution of its SSA.
func (e *specEnv) inlineCall(c *ast.CallExpr, o *types.Func) Val {
	fn := e.x.P.Prog.FuncValue(o)
	var args []Val
	sig := o.Type().(*types.Signature)
	if fn == nil && sig.Recv() != nil {
		// method of a sealed interface with a single in-package implementer: dispatch to it
		if iface, ok := sig.Recv().Type().Underlying().(*types.Interface); ok {
			impls := e.x.sealedImplementers(iface)
			sel, isSel := c.Fun.(*ast.SelectorExpr)
			if len(impls) == 1 && isSel {
				ms := e.x.P.Prog.MethodSets.MethodSet(impls[0])
				if s := ms.Lookup(e.x.P.Pkg.Types, o.Name()); s != nil {
					if f := e.x.P.Prog.MethodValue(s); f != nil && len(f.Blocks) > 0 {
						rv := e.expr(sel.X)
						if rv.K != VIface {
							e.fail(c, "interface method on non-interface value")
						}
						e.x.assumed["closed world for interface "+typeName(sig.Recv().Type())+": only in-package pointer types implement it (unexported methods)"] = true
						pt := impls[0].(*types.Pointer)
						fn = f
						args = append(args, Val{K: VPtr, Prefix: canonPrefix(pt.Elem()), Ref: rv.Fs[1].T, Ty: impls[0]})
						sig = nil
					}
				}
			}
		}
	}
	if fn == nil {
		// generic or interface method
		e.fail(c, "no SSA for %s", o.FullName())
	}
	if sig == nil {
		sig = fn.Signature
	} else if sig.Recv() != nil {
		sel, ok := c.Fun.(*ast.SelectorExpr)
		if !ok {
			e.fail(c, "method call without selector")
		}
		rv := e.expr(sel.X)
		rt := e.typeOf(sel.X)
		if s, ok := e.info.Selections[sel]; ok && len(s.Index()) > 1 {
			// promoted method: walk embedded path
			rv, rt = e.walkEmbedded(c, rv, rt, s.Index()[:len(s.Index())-1])
		}
		_, wantPtr := sig.Recv().Type().(*types.Pointer)
		_, havePtr := rt.Underlying().(*types.Pointer)
		switch {
		case wantPtr && !havePtr:
			e.fail(c, "method with pointer receiver on value in spec")
		case !wantPtr && havePtr:
			rv = e.x.load(e.cur, rv, rt.Underlying().(*types.Pointer).Elem())
		}
		args = append(args, rv)
	}
	for i, a := range c.Args {
		v := e.expr(a)
		if isNilType(e.typeOf(a)) && i < sig.Params().Len() {
			v = zeroVal(sig.Params().At(i).Type())
		}
		args = append(args, v)
	}
	if e.depth > 8 {
		e.fail(c, "spec call depth exceeded")
	}
	if len(findLoops(fn)) > 0 {
		e.fail(c, "function %s has loops and cannot be used in a spec", o.Name())
	}
	st := e.cur.clone()
	nf := e.x.newFrame(fn, args, st, 1)
	nf.inline = true
	nf.safety = false
	savedOld := e.old
	_ = savedOld
	rets := e.x.runFunc(nf, st)
	if len(rets) == 0 {
		e.fail(c, "spec function %s never returns", o.Name())
	}
	v := rets[len(rets)-1].val
	for i := len(rets) - 2; i >= 0; i-- {
		v = iteVal(rets[i].cond, rets[i].val, v)
	}
	return v
}

func (e *specEnv) walkEmbedded(n ast.Node, v Val, t types.Type, path []int) (Val, types.Type) {
	for _, idx := range path {
		var st *types.Struct
		if pt, ok := t.Underlying().(*types.Pointer); ok {
			st = pt.Elem().Underlying().(*types.Struct)
			f := st.Field(idx)
			addr := Val{K: VPtr, Prefix: v.Prefix + "." + f.Name(), Ref: v.Ref, Idx: v.Idx}
			if _, isStruct := f.Type().Underlying().(*types.Struct); isStruct {
				v, t = addr, types.NewPointer(f.Type())
			} else {
				v, t = e.x.load(e.cur, addr, f.Type()), f.Type()
			}
			continue
		}
		st = t.Underlying().(*types.Struct)
		v, t = v.Fs[idx], st.Field(idx).Type()
	}
	return v, t
}

// resolveLocal finds the SSA value of a local variable at the environment's resolution point.
func (x *fnExec) resolveLocal(e *specEnv, obj *types.Var) (Val, bool) {
	fr := e.fr
	name := obj.Name()
	fromRef := func(dr *ssa.DebugRef) (Val, bool) {
		if dr.IsAddr {
			p := x.val(fr, dr.X)
			if p.K != VPtr {
				return Val{}, false
			}
			return x.load(e.cur, p, obj.Type()), true
		}
		return x.val(fr, dr.X), true
	}
	scanBlock := func(b *ssa.BasicBlock, from int) (Val, bool) {
		for i := from; i >= 0; i-- {
			switch t := b.Instrs[i].(type) {
			case *ssa.DebugRef:
				if t.Object() == obj {
					if _, isConst := t.X.(*ssa.Const); isConst && !t.IsAddr {
						// x := <composite literal>: the builder records the zero value at the declaring identifier and
						// builds the literal afterwards without another reference at that point. If every other
						// reference to the variable shows one and the same computed value, defined in this block after
						// the declaration, that value is the variable's.
						var only ssa.Value
						multiple := false
						for _, ob := range fr.fn.Blocks {
							for _, oin := range ob.Instrs {
								if dr, ok := oin.(*ssa.DebugRef); ok && dr.Object() == obj && !dr.IsAddr {
									if _, c := dr.X.(*ssa.Const); c {
										continue
									}
									if only != nil && only != dr.X {
										multiple = true
									}
									only = dr.X
								}
							}
						}
						if only != nil && !multiple {
							if vi, ok := only.(ssa.Instruction); ok && vi.Block() == b {
								after := false
								for k := i + 1; k < len(b.Instrs); k++ {
									if b.Instrs[k] == vi {
										after = true
									}
								}
								if _, have := fr.env[only]; have && after {
									return x.val(fr, only), true
								}
							}
						}
					}
					if os.Getenv("SCTPVC_DEBUG") != "" {
						v, _ := fromRef(t)
						fmt.Fprintf(os.Stderr, "resolveLocal %s -> block %d instr %d X=%s (%T) val=%v pos=%v objpos=%v\n", name, b.Index, i, t.X.Name(), t.X, v.T, t.Pos(), obj.Pos())
					}
					return fromRef(t)
				}
			case *ssa.Phi:
				if t.Comment == name && types.Identical(t.Type(), obj.Type()) {
					return x.val(fr, t), true
				}
			}
		}
		return Val{}, false
	}
	var b *ssa.BasicBlock
	start := -1
	if e.loop != nil {
		h := e.loop.header
		// 1. header phis
		for _, in := range h.Instrs {
			if phi, ok := in.(*ssa.Phi); ok && phi.Comment == name && types.Identical(phi.Type(), obj.Type()) {
				return x.val(fr, phi), true
			}
		}
		// 2. debug refs anywhere in the loop whose value is defined in the header block (pure prefix) or outside the loop
		for lb := range e.loop.body {
			for _, in := range lb.Instrs {
				dr, ok := in.(*ssa.DebugRef)
				if !ok || dr.Object() != obj {
					continue
				}
				if vi, ok := dr.X.(ssa.Instruction); ok {
					if vi.Block() == h || !e.loop.body[vi.Block()] {
						if _, have := fr.env[dr.X]; have {
							return fromRef(dr)
						}
					}
				} else {
					return fromRef(dr) // parameter etc.
				}
			}
		}
		b = h.Idom()
		if b != nil {
			start = len(b.Instrs) - 1
		}
	} else if e.at != nil {
		b = e.at.Block()
		for i, in := range b.Instrs {
			if in == e.at {
				start = i - 1
			}
		}
	}
	for b != nil {
		if v, ok := scanBlock(b, start); ok {
			return v, true
		}
		b = b.Idom()
		if b != nil {
			start = len(b.Instrs) - 1
		}
	}
	if os.Getenv("SCTPVC_DEBUG") != "" {
		fmt.Fprintf(os.Stderr, "resolveLocal failed: %s declared at %s; at=%v loop=%v\n", obj.Name(), x.P.Fset.Position(obj.Pos()), e.at, e.loop != nil)
	}
	// parameters never referenced: look up by name among function params
	for _, p := range fr.fn.Params {
		if p.Object() == obj {
			return x.val(fr, p), true
		}
	}
	_ = strings.TrimSpace
	return Val{}, false
}
