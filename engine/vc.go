package main

// Top-level verification of one function under contract; obligation discharge with generator-side instantiation.

import (
	"go/token"
	"regexp"
	"fmt"
	"go/ast"
	"go/types"
	"os"
	"sort"
	"strings"
	"sync"
	"time"

	"golang.org/x/tools/go/ast/astutil"
	"golang.org/x/tools/go/ssa"
)

type OblResult struct {
	Name     string   `json:"name"`
	Func     string   `json:"function"`
	Kind     string   `json:"kind"`
	Tags     []string `json:"tags"`
	Status   string   `json:"status"` // proved, refuted, unknown, error
	Backend  string   `json:"backend"`
	Secs     float64  `json:"solver_s"`
	Sites    int      `json:"sites"`
	Src      string   `json:"clause,omitempty"`
	FailSite string   `json:"fail_site,omitempty"`
	Model    map[string]string `json:"model,omitempty"`
	Output   string   `json:"solver_output,omitempty"`
	Smoke    bool     `json:"-"`
	FailSMT  string   `json:"-"` // the refuted query (for a second, minimising solver run before replay)
	backends map[string]int
}

type FuncReport struct {
	Key        string
	Results    []*OblResult
	Notes      []string
	Inlined    []string
	Abstracted []string
	Assumed    []string
	Errors     []string
	SmokeOK    bool
	SmokeMsg   string
	Wall       float64
}

func newFnExec(p *Program, fn *ssa.Function, c *Contract) *fnExec {
	return &fnExec{P: p, top: fn, C: c, notes: map[string]bool{}, inlined: map[string]bool{}, abstracted: map[string]bool{},
		assumed: map[string]bool{}, atCallHits: map[*AtCall]int{}, wfSeen: map[int]bool{}, modelNames: map[string]string{}}
}

// bindClauseAt binds a clause at an arbitrary position with extra literal parameters.
// stmtStart returns the start of the innermost statement enclosing pos (names declared by that statement are not in scope there).
func (p *Program) stmtStart(pos tokenPos) tokenPos {
	for _, f := range p.Pkg.Syntax {
		if f.Pos() <= pos && pos < f.End() {
			path, _ := astutil.PathEnclosingInterval(f, pos, pos)
			for i, n := range path {
				s, ok := n.(ast.Stmt)
				if !ok {
					continue
				}
				if _, isBlock := s.(*ast.BlockStmt); isBlock {
					break
				}
				// the init statement of if/for/switch lives in the scope of that statement: step out of it
				if i+1 < len(path) {
					switch par := path[i+1].(type) {
					case *ast.IfStmt:
						if par.Init == s {
							return par.Pos() - 1
						}
					case *ast.ForStmt:
						if par.Init == s {
							return par.Pos() - 1
						}
					case *ast.SwitchStmt:
						if par.Init == s {
							return par.Pos() - 1
						}
					case *ast.TypeSwitchStmt:
						if par.Init == s {
							return par.Pos() - 1
						}
					}
				}
				return s.Pos()
			}
		}
	}
	return pos
}

func (p *Program) bindClauseAt(c *Contract, cl *Clause, pos tokenPos, extra []string) {
	pos = p.stmtStart(pos)
	var params []string
	for _, b := range cl.Bound {
		params = append(params, b.Name+" "+b.Type)
	}
	params = append(params, extra...)
	src := "func(" + strings.Join(params, ", ") + ") bool { return " + cl.GoText + " }"
	before := len(c.BindErr)
	p.checkLit(c, cl, pos, src)
	if len(c.BindErr) > before {
		// at-call binding errors are reported per site by the caller
		c.BindErr = c.BindErr[:before]
	}
}

// notNew records that the objects a parameter refers to existed before the call.
func (x *fnExec) notNew(v Val) {
	switch v.K {
	case VPtr:
		x.facts = append(x.facts, Fact{x.next(), Not(App("newobj", SBool, v.Ref)), false, ""})
	case VSlice:
		x.facts = append(x.facts, Fact{x.next(), Not(App("newobj", SBool, v.base())), false, ""})
	case VIface:
		x.facts = append(x.facts, Fact{x.next(), Not(App("newobj", SBool, v.Fs[1].T)), false, ""})
	case VStruct, VTuple:
		for _, f := range v.Fs {
			x.notNew(f)
		}
	}
}

// generate symbolically executes the function and collects its obligations.
func (x *fnExec) generate() {
	fn, c := x.top, x.C
	st := &State{pc: True, heap: map[string]*Term{}, epoch: &epochExpr{leaf: "pre"}}
	var args []Val
	for i, p := range fn.Params {
		v := symVal("in_"+p.Name(), p.Type())
		args = append(args, v)
		x.inputs = append(x.inputs, flatten(v)...)
		x.recordRefs(v)
		x.constrainFresh(st, v)
		x.notNew(v)
		if i == 0 && fn.Signature.Recv() != nil && v.K == VPtr {
			x.assume(st, Not(Eq(v.Ref, BVU(0, 64))))
			x.assumed["method receivers are non-nil"] = true
		}
	}
	for _, fv := range fn.FreeVars {
		_ = fv
	}
	fr := x.newFrame(fn, args, st, 0)
	fr.C = c
	fr.safety = len(c.Safety) > 0
	for _, cl := range append(append([]*Clause{}, c.Requires...), c.Assumes...) {
		if cl.Info == nil {
			continue
		}
		env := &specEnv{x: x, vars: copyVars(fr.vars), cur: st, old: st, info: cl.Info}
		env.assumeClause(cl, st)
		if cl.Kind == "assume" {
			x.assumed["assume#"+cl.Label+" in "+c.Key+": "+cl.Src] = true
		}
	}
	// no lock has been released by this call yet
	st.setArr("X:released", ConstArr(Arr(SRef, SBool), False))
	fr.entry = st.clone()
	if len(c.Serial) > 0 {
		// the audit obligation exists even when the function has no raw comparison today
		x.obligation(st, c.Key+":assert#serial-compare", "assert", "function entry (no comparison)", c.Serial, True, nil,
			"ordering comparisons between sequence numbers follow serial-number arithmetic")
	}
	rets := x.runFunc(fr, st)
	for _, r := range rets {
		site := fmt.Sprintf("return %d", r.idx)
		for _, cl := range c.Ensures {
			if cl.Info == nil {
				continue
			}
			if hasTag(cl.Tags, "TRUSTED") {
				x.assumed["trusted postcondition (used by callers, not proved): "+c.Key+":post#"+cl.Label+": "+cl.Src] = true
				continue
			}
			vars := copyVars(fr.vars)
			x.bindResults(vars, fn, cl, r.val)
			env := &specEnv{x: x, vars: vars, cur: r.st, old: fr.entry, info: cl.Info}
			nf0, nq0 := len(x.facts), len(x.qfacts)
			goal, hyp, sk := env.clauseGoal(cl)
			// facts produced while evaluating the clause (contracts of functions called inside it) belong to this
			// return site, whatever block was executed last
			for i := nf0; i < len(x.facts); i++ {
				x.facts[i].global = true
			}
			for i := nq0; i < len(x.qfacts); i++ {
				x.qfacts[i].global = true
			}
			o := x.obligation(r.st, c.Key+":post#"+cl.Label, "post", site, clauseTags(c, cl), goal, hyp, cl.Src)
			o.skolems = sk
			o.blk = r.blk
			if hasTag(cl.Tags, "LEMMA") {
				// a postcondition marked LEMMA is proved like any other and then serves as a hypothesis for the
				// postconditions listed after it, at the same return site
				vars2 := copyVars(fr.vars)
				x.bindResults(vars2, fn, cl, r.val)
				env2 := &specEnv{x: x, vars: vars2, cur: r.st, old: fr.entry, info: cl.Info}
				nf, nq := len(x.facts), len(x.qfacts)
				env2.assumeClause(cl, r.st)
				for i := nf; i < len(x.facts); i++ {
					x.facts[i].global = true
				}
				for i := nq; i < len(x.qfacts); i++ {
					x.qfacts[i].global = true
				}
			}
		}
		if c.HasMod {
			x.frameObligations(fr, r, site)
		}
		// vacuity smoke test: "false" at the return must be refutable
		o := x.obligation(r.st, c.Key+":smoke", "smoke", site, nil, False, nil, "")
		o.Smoke = true
		o.blk = r.blk
	}
	if len(rets) == 0 {
		x.errors = append(x.errors, "function has no reachable return")
	}
	for _, ac := range c.AtCalls {
		if x.atCallHits[ac] == 0 {
			x.errors = append(x.errors, fmt.Sprintf("anchor-lost: at call %s assert#%s: no such call in %s", ac.Callee, ac.Clause.Label, c.Key))
		}
	}
	for n, ls := range c.Loops {
		if len(ls.Complete) == 0 {
			continue
		}
		for _, li := range fr.loops {
			if li.ordinal != n {
				continue
			}
			// every edge that leaves the loop must start at its header (the range/condition test)
			var early []string
			for b := range li.body {
				if b == li.header {
					continue
				}
				for _, s := range b.Succs {
					if !li.body[s] {
						early = append(early, fmt.Sprintf("block %d -> %d", b.Index, s.Index))
					}
				}
				for _, in := range b.Instrs {
					if _, isRet := in.(*ssa.Return); isRet {
						early = append(early, fmt.Sprintf("return in block %d", b.Index))
					}
				}
			}
			sort.Strings(early)
			entry := &State{pc: True, heap: map[string]*Term{}, epoch: &epochExpr{leaf: "pre"}}
			tags := ls.Complete
			if len(tags) == 1 && tags[0] == "-" {
				tags = c.Tags
			}
			goal := True
			site := "loop is left only through its header"
			if len(early) > 0 {
				goal = False
				site = "early exit: " + strings.Join(early, ", ")
			}
			x.obligation(entry, fmt.Sprintf("%s:loop %d:complete", c.Key, n), "structure", site, tags, goal, nil, "the loop visits every element: no break or return inside the body")
		}
	}
	for _, ac := range c.AtStores {
		if x.atCallHits[ac] == 0 {
			x.errors = append(x.errors, fmt.Sprintf("anchor-lost: at store %s assert#%s: no such store in %s", ac.Callee, ac.Clause.Label, c.Key))
		}
	}
	for n, ls := range c.Loops {
		found := false
		for _, li := range fr.loops {
			if li.ordinal == n {
				found = true
			}
		}
		if !found {
			x.errors = append(x.errors, fmt.Sprintf("anchor-lost: loop %d not found in SSA of %s (%d invariants)", n, c.Key, len(ls.Invariants)))
		}
	}
}

// frameObligations checks the declared modifies clause at a return: every heap array written anywhere in the
// function (syntactically, transitively) is unchanged outside the declared targets.
func (x *fnExec) frameObligations(fr *frame, r retEdge, site string) {
	c := x.C
	for _, m := range c.Modifies {
		if m == "*" {
			return
		}
	}
	eff := x.P.effectsOf(x.top)
	name := c.Key + ":frame"
	if eff.top {
		x.obligation(r.st, name, "frame", site+": body has unknown effects", c.Tags, False, nil, "modifies "+strings.Join(c.Modifies, ", ")).blk = r.blk
		return
	}
	type tgt struct {
		p     Val
		ty    types.Type
		elems bool
		sl    Val
		whole string
	}
	var tgts []tgt
	for _, m := range c.Modifies {
		elems := false
		if strings.HasSuffix(m, "[*]") {
			elems = true
			m = strings.TrimSuffix(m, "[*]")
		}
		t, err := x.resolveModTarget(c, x.top, fr.vars, fr.entry, m)
		if err != nil {
			x.errors = append(x.errors, fmt.Sprintf("modifies %q: %v", m, err))
			return
		}
		tgts = append(tgts, tgt{t.p, t.ty, elems, t.sl, t.whole})
	}
	var keys []string
	for k := range eff.keys {
		keys = append(keys, k)
	}
	sort.Strings(keys)
	for _, k := range keys {
		if strings.HasPrefix(k, "X:") {
			continue // ghost state (lock ownership, send counters) is not part of the frame
		}
		if strings.HasPrefix(k, "M:") || k == "E:*" {
			// maps: require an explicit whole-map target
			x.note("frame check does not cover map arrays (%s)", k)
			continue
		}
		cur, ok := r.st.heap[k]
		if !ok {
			continue // never touched on this path
		}
		old, ok2 := fr.entry.heap[k]
		if !ok2 {
			old = fr.entry.epoch.build(k, cur.S)
		}
		if cur == old {
			continue
		}
		ref := Fresh("frame_ref", SRef)
		var excl []*Term
		covered := false
		for _, t := range tgts {
			switch {
			case t.whole != "":
				if k == t.whole || strings.HasPrefix(k, t.whole+".") || strings.HasPrefix(k, t.whole+"#") {
					covered = true
				}
			case t.elems:
				et := t.ty.Underlying().(*types.Slice).Elem()
				if strings.HasPrefix(k, "E:"+typeName(et)) {
					excl = append(excl, Not(Eq(ref, t.sl.base())))
				}
			default:
				for _, l := range leaves(t.ty) {
					if t.p.Prefix+l.path == k {
						excl = append(excl, Not(Eq(ref, t.p.Ref)))
					}
				}
			}
		}
		if covered {
			continue
		}
		// objects allocated by this function are not part of the caller-visible frame
		for _, a := range x.allocs {
			excl = append(excl, Not(Eq(ref, a.ref)))
		}
		goal := Implies(And(excl...), StructEq(Select(cur, ref), Select(old, ref)))
		x.obligation(r.st, name, "frame", site+": "+k, c.Tags, goal, nil, "modifies "+strings.Join(c.Modifies, ", ")).blk = r.blk
	}
}

// ---------- discharge ----------

type Config struct {
	TimeoutS int
	WantAll  bool
	Jobs     int
	Verbose  bool
	KeepSMT  string
	Unroll   int  // >0: bounded fall-back — loops unrolled this many times, loop clauses ignored
	Fast     bool // development: main query (and its quantified retry) only; no staged, exact or case-split attempts
}

func termSize(roots []*Term) int {
	n := 0
	Subterms(roots, func(*Term) { n++ })
	return n
}

// candidates collects instantiation candidates by sort from the given roots.
func candidates(roots []*Term) map[*Sort][]*Term {
	out := map[*Sort][]*Term{}
	seen := map[int]bool{}
	add := func(t *Term) {
		if t.S.K == KArr || t.S == SBool || seen[t.id] || containsBVar(t) {
			return
		}
		seen[t.id] = true
		out[t.S] = append(out[t.S], t)
	}
	Subterms(roots, func(t *Term) {
		switch t.Op {
		case "const":
			add(t)
		case "select":
			add(t.Args[1])
		case "store":
			add(t.Args[1])
		case "app":
			for _, a := range t.Args {
				add(a)
			}
		case "bvlshr", "bvshl", "bvashr":
			// shift amounts: bit positions, the natural witnesses for facts quantified over bit indices
			add(t.Args[1])
		case "bvult", "bvule", "bvslt", "bvsle", "bvugt", "bvuge", "bvsgt", "bvsge", "=":
			for _, a := range t.Args {
				if a.S.K == KBV {
					add(a)
				}
			}
		}
	})
	return out
}

var termMu sync.Mutex

// pathDNF expands a path condition built from and/or over literals into its disjuncts (each a list of literals);
// nil when there are more than max of them or a sub-term is not worth expanding.
func pathDNF(t *Term, max int) [][]*Term {
	var rec func(t *Term) [][]*Term
	rec = func(t *Term) [][]*Term {
		switch t.Op {
		case "or":
			var out [][]*Term
			for _, a := range t.Args {
				r := rec(a)
				if r == nil {
					return nil
				}
				out = append(out, r...)
				if len(out) > max {
					return nil
				}
			}
			return out
		case "and":
			out := [][]*Term{{}}
			for _, a := range t.Args {
				r := rec(a)
				if r == nil {
					return nil
				}
				var next [][]*Term
				for _, x := range out {
					for _, y := range r {
						next = append(next, append(append([]*Term{}, x...), y...))
					}
				}
				out = next
				if len(out) > max {
					return nil
				}
			}
			return out
		}
		return [][]*Term{{t}}
	}
	return rec(t)
}

// solveIndex solves the index pattern pat (a sum in which the bound variable v occurs once) against the ground index t.
func solveIndex(pat, v, t *Term) *Term {
	if pat.S != t.S {
		return nil
	}
	if pat == v {
		return t
	}
	if pat.Op != "bvadd" || len(pat.Args) != 2 {
		return nil
	}
	a, b := pat.Args[0], pat.Args[1]
	inA, inB := containsTerm(a, v), containsTerm(b, v)
	switch {
	case inA && !inB && !containsBVar(b):
		return solveIndex(a, v, subTerm(t, b))
	case inB && !inA && !containsBVar(a):
		return solveIndex(b, v, subTerm(t, a))
	}
	return nil
}

func containsTerm(t, v *Term) bool {
	found := false
	Subterms([]*Term{t}, func(s *Term) {
		if s == v {
			found = true
		}
	})
	return found
}

// subTerm builds t-x, cancelling x when it is a summand of t.
func subTerm(t, x *Term) *Term {
	var drop func(t *Term) *Term
	drop = func(t *Term) *Term {
		if t.Op != "bvadd" || len(t.Args) != 2 {
			return nil
		}
		a, b := t.Args[0], t.Args[1]
		if a == x {
			return b
		}
		if b == x {
			return a
		}
		if r := drop(a); r != nil {
			return BVBin("bvadd", r, b)
		}
		if r := drop(b); r != nil {
			return BVBin("bvadd", a, r)
		}
		return nil
	}
	if t == x {
		return BVU(0, t.S.W)
	}
	if r := drop(t); r != nil {
		return r
	}
	if x.Op == "lit" && x.Lit.Sign() == 0 {
		return t
	}
	return BVBin("bvsub", t, x)
}

// triggerInstances instantiates quantified hypotheses by matching their array-read patterns against the ground
// array reads present in the query (same array term, index solved for the bound variable). Bound variables that
// occur in no such pattern range over the comparison operands of the goal. Three rounds; instances feed the next round.
func triggerInstances(qf []*QFact, roots []*Term, seed []*Term) []*Term {
	type pat struct {
		arr, idx *Term
	}
	pats := make([]map[*Term][]pat, len(qf))
	for qi, q := range qf {
		pats[qi] = map[*Term][]pat{}
		Subterms([]*Term{q.body, q.pc}, func(t *Term) {
			if t.Op != "select" || containsBVar(t.Args[0]) || !containsBVar(t.Args[1]) {
				return
			}
			for _, v := range q.vars {
				if containsTerm(t.Args[1], v) {
					only := true
					for _, w := range q.vars {
						if w != v && containsTerm(t.Args[1], w) {
							only = false
						}
					}
					if only && solveIndex(t.Args[1], v, v) != nil {
						pats[qi][v] = append(pats[qi][v], pat{t.Args[0], t.Args[1]})
					}
				}
			}
		})
	}
	seedC := candidates(seed)
	var insts []*Term
	known := map[int]bool{}
	pool := roots
	for round := 0; round < 3; round++ {
		reads := map[*Term][]*Term{}
		seen := map[int]bool{}
		Subterms(append(append([]*Term{}, pool...), insts...), func(t *Term) {
			if t.Op == "select" && !containsBVar(t) && !seen[t.id] {
				seen[t.id] = true
				reads[t.Args[0]] = append(reads[t.Args[0]], t.Args[1])
			}
		})
		var newInsts []*Term
		for qi, q := range qf {
			lists := make([][]*Term, len(q.vars))
			total := 1
			for vi, v := range q.vars {
				have := map[int]bool{}
				var l []*Term
				if ps := pats[qi][v]; len(ps) > 0 {
					for _, p := range ps {
						for _, t := range reads[p.arr] {
							if c := solveIndex(p.idx, v, t); c != nil && !have[c.id] && len(l) < 40 {
								have[c.id] = true
								l = append(l, c)
							}
						}
					}
				} else {
					for _, c := range seedC[v.S] {
						if len(l) < 16 {
							l = append(l, c)
						}
					}
				}
				lists[vi] = l
				total *= len(l)
			}
			if total == 0 || total > 2000 {
				if total > 2000 {
					for vi := range lists {
						if len(lists[vi]) > 12 {
							lists[vi] = lists[vi][:12]
						}
					}
				} else {
					continue
				}
			}
			idx := make([]int, len(lists))
			for {
				m := map[*Term]*Term{}
				for vi, v := range q.vars {
					m[v] = lists[vi][idx[vi]]
				}
				inst := Implies(q.pc, Subst(q.body, m))
				if !known[inst.id] && inst != True {
					known[inst.id] = true
					newInsts = append(newInsts, inst)
				}
				k := 0
				for k < len(idx) {
					idx[k]++
					if idx[k] < len(lists[k]) {
						break
					}
					idx[k] = 0
					k++
				}
				if k == len(idx) {
					break
				}
			}
		}
		if len(newInsts) == 0 {
			break
		}
		insts = append(insts, newInsts...)
		if len(insts) > 4000 {
			break
		}
	}
	return insts
}

// isContractOrigin: the quantified fact comes from a clause of a contract (not from the engine's model of append, copy, ranges).
func isContractOrigin(origin string) bool {
	for _, k := range []string{"requires#", "ensures#", "assume#", "invariant#"} {
		if strings.HasPrefix(origin, k) {
			return true
		}
	}
	return false
}

func (x *fnExec) proofOnly(o *Obl) bool {
	if x.C == nil {
		return false
	}
	for lbl := range x.C.ProofOnly {
		if strings.HasSuffix(o.Name, "#"+lbl) || strings.HasSuffix(o.Name, ":"+lbl) {
			return true
		}
	}
	return false
}

// proofUses returns the labels named by a "proof <label> uses ..." directive for this obligation, or nil.
func (x *fnExec) proofUses(o *Obl) map[string]bool {
	if x.C == nil || len(x.C.ProofUses) == 0 || x.unroll > 0 {
		// in the bounded fall-back a refutation must be a model of *all* hypotheses: nothing is withheld
		return nil
	}
	for lbl, ls := range x.C.ProofUses {
		if strings.HasSuffix(o.Name, "#"+lbl) || strings.HasSuffix(o.Name, ":"+lbl) {
			m := map[string]bool{}
			for _, l := range ls {
				m[l] = true
			}
			return m
		}
	}
	return nil
}

// splitConds picks branch conditions to case-split on: the atoms of the merge conditions (ite guards) in the goal
// that are not already part of the obligation's own path condition; atoms seen in both polarities come first.
func splitConds(goal, hyp *Term) []*Term {
	known := map[*Term]bool{}
	var flat func(t *Term, f func(*Term))
	flat = func(t *Term, f func(*Term)) {
		if t.Op == "and" {
			for _, a := range t.Args {
				flat(a, f)
			}
			return
		}
		f(t)
	}
	flat(hyp, func(a *Term) {
		if a.Op == "not" {
			a = a.Args[0]
		}
		known[a] = true
	})
	pos := map[*Term]int{}
	neg := map[*Term]int{}
	direct := map[*Term]bool{}
	Subterms([]*Term{goal}, func(t *Term) {
		if t.Op != "ite" || containsBVar(t.Args[0]) {
			return
		}
		if c := t.Args[0]; c.Op != "and" && c.Op != "not" && c.Op != "or" {
			direct[c] = true
		}
		flat(t.Args[0], func(a *Term) {
			if a.Op == "not" {
				neg[a.Args[0]]++
			} else if a.Op != "lit" && a != True && a != False {
				pos[a]++
			}
		})
	})
	score := map[*Term]int{}
	for a, n := range pos {
		score[a] += n
		if direct[a] {
			score[a] += 2000
		}
	}
	for a, n := range neg {
		score[a] += n
		if pos[a] > 0 {
			score[a] += 1000
		}
	}
	var out []*Term
	for a := range score {
		if !known[a] && a.Op != "or" {
			out = append(out, a)
		}
	}
	sort.Slice(out, func(i, j int) bool {
		if score[out[i]] != score[out[j]] {
			return score[out[i]] > score[out[j]]
		}
		return out[i].id < out[j].id
	})
	if len(out) > 4 {
		out = out[:4]
	}
	return out
}

// selectIndices lists the bit-vector index terms of array reads in the given roots.
func selectIndices(roots []*Term) []*Term {
	var out []*Term
	seen := map[int]bool{}
	Subterms(roots, func(t *Term) {
		if t.Op == "select" && t.Args[1].S.K == KBV && !seen[t.Args[1].id] && !containsBVar(t.Args[1]) {
			seen[t.Args[1].id] = true
			out = append(out, t.Args[1])
		}
	})
	return out
}

// shiftedCandidates solves index patterns of the form X+v (X ground) in a quantified fact against the ground read
// indices T of the goal: v := T-X. This finds the shifted instances (i+1, i-1, off+i) plain enumeration misses.
func shiftedCandidates(q *QFact, v *Term, idx []*Term) []*Term {
	var offs []*Term
	seen := map[int]bool{}
	Subterms([]*Term{q.body}, func(t *Term) {
		if t.Op != "select" || t.Args[1].Op != "bvadd" || len(t.Args[1].Args) != 2 {
			return
		}
		a, b := t.Args[1].Args[0], t.Args[1].Args[1]
		if b == v && !containsBVar(a) && !seen[a.id] {
			seen[a.id] = true
			offs = append(offs, a)
		}
		if a == v && !containsBVar(b) && !seen[b.id] {
			seen[b.id] = true
			offs = append(offs, b)
		}
	})
	var out []*Term
	have := map[int]bool{}
	add := func(c *Term) {
		if !have[c.id] && len(out) < 24 {
			have[c.id] = true
			out = append(out, c)
		}
	}
	// exact matches first: T = X+r gives v := r, T = (X+a)+b gives v := a+b
	var rest func(t, x *Term) *Term
	rest = func(t, x *Term) *Term {
		if t.Op != "bvadd" || len(t.Args) != 2 {
			return nil
		}
		a, b := t.Args[0], t.Args[1]
		if a == x {
			return b
		}
		if b == x {
			return a
		}
		if r := rest(a, x); r != nil {
			return BVBin("bvadd", r, b)
		}
		if r := rest(b, x); r != nil {
			return BVBin("bvadd", a, r)
		}
		return nil
	}
	for _, x := range offs {
		for _, t := range idx {
			if t.S != v.S || t == x {
				continue
			}
			if r := rest(t, x); r != nil {
				add(r)
			}
		}
	}
	for _, x := range offs {
		for _, t := range idx {
			if t.S != v.S || t == x || len(out) >= 24 {
				continue
			}
			if rest(t, x) == nil {
				add(BVBin("bvsub", t, x))
			}
		}
	}
	return out
}

// heapSyms returns the heap-level symbols of a term: array-sorted constants and uninterpreted function names.
var heapSymMemo = map[int]map[string]bool{}

func heapSyms(t *Term) map[string]bool {
	if m, ok := heapSymMemo[t.id]; ok {
		return m
	}
	m := map[string]bool{}
	Subterms([]*Term{t}, func(s *Term) {
		switch {
		case s.Op == "const" && (s.S.K == KArr || strings.Contains(s.Name, "!")):
			// heap arrays and fresh symbols (call results, havocked loop variables, allocations, skolems);
			// function inputs are left out: they occur everywhere and would connect everything
			m[s.Name] = true
		case s.Op == "app" && s.Name != "newobj":
			m["@"+s.Name] = true
		}
	})
	heapSymMemo[t.id] = m
	return m
}

func intersects(a, b map[string]bool) bool {
	if len(a) > len(b) {
		a, b = b, a
	}
	for k := range a {
		if b[k] {
			return true
		}
	}
	return false
}

func (x *fnExec) buildQuery(o *Obl, useQuant bool, exact bool) (smt string, getVals []string, usedQ int, usedOpaque int) {
	w := newSMTWriter()
	var roots []*Term
	var ground []*Term
	// cone of influence over heap symbols: facts that share no array / function symbol (transitively) with the goal
	// and its path condition cannot help the proof; dropping hypotheses is sound
	rel := map[string]bool{}
	for k := range heapSyms(o.goal) {
		rel[k] = true
	}
	for k := range heapSyms(o.hyp) {
		rel[k] = true
	}
	type cand struct {
		t    *Term
		syms map[string]bool
		q    *QFact
		used bool
	}
	var cs []*cand
	// facts established in a block that cannot execute before the obligation's block (other branch) are irrelevant
	ob := o.blk
	if ob == nil {
		ob = x.blockAt(o.seq)
	}
	if os.Getenv("SCTPVC_NOPRUNE") != "" {
		ob = nil
	}
	usesG, onlyG := x.proofUses(o), x.proofOnly(o)
	for _, f := range x.facts {
		if onlyG && usesG != nil && !o.Smoke && f.origin != "" && isContractOrigin(f.origin) && !usesG[f.origin[strings.Index(f.origin, "#")+1:]] {
			continue
		}
		if f.seq < o.seq && (o.Smoke || f.global || x.unroll > 0 || x.canPrecede(x.blockAt(f.seq), ob)) {
			// (bounded fall-back: loops are unrolled, so what a loop body established does reach the code after the loop)
			cs = append(cs, &cand{t: f.t, syms: heapSyms(f.t)})
		} else if f.seq < o.seq && os.Getenv("SCTPVC_DEBUG") != "" && !o.Smoke {
			fmt.Fprintf(os.Stderr, "PRUNE %s site=%s: fact seq=%d from block %d (obligation block %d): %s\n", o.Name, o.Site, f.seq, x.blockAt(f.seq).Index, ob.Index, f.t.Short())
		}
	}
	var allQ []*QFact
	uses := x.proofUses(o)
	for _, q := range x.qfacts {
		if uses != nil && !o.Smoke && isContractOrigin(q.origin) && !uses[q.origin[strings.Index(q.origin, "#")+1:]] {
			continue
		}
		if q.seq < o.seq && (o.Smoke || q.global || x.unroll > 0 || x.canPrecede(x.blockAt(q.seq), ob)) {
			cs = append(cs, &cand{t: q.body, syms: heapSyms(Implies(q.pc, q.body)), q: q})
		}
	}
	for changed := true; changed; {
		changed = false
		for _, c := range cs {
			if c.used {
				continue
			}
			if o.Smoke || len(c.syms) == 0 || intersects(c.syms, rel) {
				c.used = true
				for k := range c.syms {
					if !rel[k] {
						rel[k] = true
						changed = true
					}
				}
			}
		}
	}
	for _, c := range cs {
		if !c.used {
			continue
		}
		if c.q != nil {
			allQ = append(allQ, c.q)
		} else {
			ground = append(ground, c.t)
		}
	}
	hypT, goalT := o.hyp, o.goal
	if x.caseSub != nil {
		// case split: everything is simplified under the assumed truth value of one merge condition
		for i, g := range ground {
			ground[i] = Subst(g, x.caseSub)
		}
		nq := make([]*QFact, len(allQ))
		for i, q := range allQ {
			nq[i] = &QFact{seq: q.seq, pc: Subst(q.pc, x.caseSub), vars: q.vars, body: Subst(q.body, x.caseSub), origin: q.origin, global: q.global}
		}
		allQ = nq
		hypT = And(Subst(o.hyp, x.caseSub), x.caseAssert)
		goalT = Subst(o.goal, x.caseSub)
	}
	if os.Getenv("SCTPVC_DUMP") != "" && !o.Smoke && (x.instLevel == 4 || len(allQ) == 0) {
		fmt.Fprintf(os.Stderr, "DUMP %s site=%s\n  GOAL %s\n  HYP %s\n", o.Name, o.Site, goalT.String(), hypT.String())
		for _, g := range ground {
			fmt.Fprintf(os.Stderr, "  FACT %s\n", g.String())
		}
		for _, q := range allQ {
			fmt.Fprintf(os.Stderr, "  QFACT[%s] pc=%s body=%s\n", q.origin, q.pc.String(), q.body.String())
		}
	}
	roots = append(roots, ground...)
	roots = append(roots, hypT, goalT)
	// allocation distinctness for terms that occur
	present := map[int]bool{}
	Subterms(roots, func(t *Term) { present[t.id] = true })
	qf := allQ
	if x.instLevel == 0 {
		qf = nil
	}
	usedQ = len(allQ)
	var insts []*Term
	if len(qf) > 0 && x.instLevel == 4 {
		insts = triggerInstances(qf, append(append([]*Term{}, ground...), hypT, goalT), []*Term{goalT, hypT})
		if os.Getenv("SCTPVC_DEBUG") != "" {
			fmt.Fprintf(os.Stderr, "TRIG %s site=%s qfacts=%d insts=%d\n", o.Name, o.Site, len(qf), len(insts))
		}
		qf = nil
	}
	if len(qf) > 0 {
		// two rounds of instantiation (one, from the goal's own terms only, at level 1)
		known := map[int]bool{}
		cur := roots
		rounds := 2
		if x.instLevel == 1 {
			rounds = 1
			cur = []*Term{goalT}
		}
		if x.instLevel == 3 {
			// goal-directed: instances at the terms of the goal and its path condition, then at the terms those instances bring in
			rounds = 3
			cur = []*Term{goalT, hypT}
		}
		for round := 0; round < rounds; round++ {
			// terms of the goal and its path condition first: the cap below then cuts the least relevant ones
			seed := []*Term{goalT, hypT}
			if x.instLevel == 1 {
				seed = []*Term{goalT}
			}
			cands := candidates(append(append(seed, cur...), insts...))
			selIdx := selectIndices(append(append([]*Term{}, seed...), insts...))
			var newInsts []*Term
			for _, q := range qf {
				lists := make([][]*Term, len(q.vars))
				total := 1
				for i, v := range q.vars {
					l := cands[v.S]
					if sh := shiftedCandidates(q, v, selIdx); len(sh) > 0 {
						l = append(append([]*Term{}, sh...), l...)
					}
					lim := 48
					if len(q.vars) == 1 {
						lim = 120
					}
					if len(l) > lim {
						l = l[:lim]
					}
					lists[i] = l
					total *= len(l)
				}
				if total == 0 {
					continue
				}
				if total > 1500 {
					// shrink lists evenly
					for total > 1500 {
						for i := range lists {
							if len(lists[i]) > 4 {
								total = total / len(lists[i])
								lists[i] = lists[i][:len(lists[i])*3/4]
								total *= len(lists[i])
							}
						}
						if total <= 1500 {
							break
						}
						small := true
						for i := range lists {
							if len(lists[i]) > 4 {
								small = false
							}
						}
						if small {
							break
						}
					}
				}
				idx := make([]int, len(lists))
				for {
					m := map[*Term]*Term{}
					for i, v := range q.vars {
						m[v] = lists[i][idx[i]]
					}
					inst := Implies(q.pc, Subst(q.body, m))
					if !known[inst.id] && inst != True {
						known[inst.id] = true
						newInsts = append(newInsts, inst)
					}
					k := 0
					for k < len(idx) {
						idx[k]++
						if idx[k] < len(lists[k]) {
							break
						}
						idx[k] = 0
						k++
					}
					if k == len(idx) {
						break
					}
				}
			}
			if len(newInsts) == 0 {
				break
			}
			insts = append(insts, newInsts...)
			if os.Getenv("SCTPVC_DEBUG") != "" {
				fmt.Fprintf(os.Stderr, "INST %s site=%s round=%d qfacts=%d new=%d total=%d\n", o.Name, o.Site, round, len(qf), len(newInsts), len(insts))
			}
			if len(insts) > 6000 {
				break
			}
		}
	}
	all := append(append([]*Term{}, roots...), insts...)
	Subterms(all, func(t *Term) { present[t.id] = true })
	for i, a := range x.allocs {
		if !present[a.ref.id] {
			continue
		}
		for _, r := range x.refTerms {
			if r.seq <= a.seq && present[r.ref.id] && r.ref != a.ref {
				w.assert(Not(Eq(a.ref, r.ref)))
			}
		}
		for j := 0; j < i; j++ {
			if present[x.allocs[j].ref.id] {
				w.assert(Not(Eq(a.ref, x.allocs[j].ref)))
			}
		}
	}
	for _, g := range ground {
		w.assert(g)
	}
	for _, t := range insts {
		w.assert(t)
	}
	if useQuant {
		for _, q := range allQ {
			if x.instLevel == 0 {
				break
			}
			w.assert(Implies(q.pc, Forall(q.vars, q.body)))
		}
	}
	w.assert(hypT)
	w.assert(Not(goalT))
	for k := 0; k < len(w.apps); k++ {
		r := w.apps[k]
		var op string
		if r.Name == "content" && r.Args[0].Op == "ite" {
			a := r.Args[0]
			w.assert(Eq(r, Ite(a.Args[0], App("content", r.S, a.Args[1], r.Args[1], r.Args[2]), App("content", r.S, a.Args[2], r.Args[1], r.Args[2]))))
			continue
		}
		if r.Name == "content" && r.Args[0].Op == "store" {
			// content(store(row,i,v), o, l) = content(row, o, l) when i lies outside [o, o+l)
			row, i := r.Args[0].Args[0], r.Args[0].Args[1]
			o, l := r.Args[1], r.Args[2]
			inner := App("content", r.S, row, o, l)
			w.assert(Implies(Or(BVCmp("bvult", i, o), BVCmp("bvuge", i, BVBin("bvadd", o, l))), Eq(r, inner)))
			continue
		}
		switch {
		case strings.HasPrefix(r.Name, "bvsrem_"):
			op = "bvsrem"
		case strings.HasPrefix(r.Name, "bvurem_"):
			op = "bvurem"
		default:
			continue
		}
		usedOpaque++
		for _, f := range remLemmas(op, r.Args[0], r.Args[1], r) {
			w.assert(f)
		}
		if exact {
			w.assert(Eq(r, BVBin(op, r.Args[0], r.Args[1])))
		}
	}
	for _, in := range x.inputs {
		if w.declared[in.Name] {
			getVals = append(getVals, in.Name)
		}
	}
	for _, sk := range o.skolems {
		if w.declared[sk.Name] {
			getVals = append(getVals, sk.Name)
		}
	}
	// scalar fields of the pre-state read through the inputs: part of the counterexample
	for _, t := range w.sels {
		getVals = append(getVals, w.done[t.id])
		x.modelNames[w.done[t.id]] = t.Short()
	}
	return w.sb.String(), getVals, usedQ, usedOpaque
}

type siteResult struct {
	o   *Obl
	res SolveResult
	q   int
	smt string
}

func (x *fnExec) discharge(cfg Config, filter func(o *Obl) bool) []*OblResult {
	var todo []*Obl
	for _, o := range x.obls {
		if filter == nil || filter(o) {
			todo = append(todo, o)
		}
	}
	results := make([]siteResult, len(todo))
	sem := make(chan struct{}, cfg.Jobs)
	var wg sync.WaitGroup
	var mu sync.Mutex
	smokeDone := false
	for i, o := range todo {
		i, o := i, o
		// queries are built sequentially (term table is not thread-safe), solved in parallel
		if o.Smoke {
			// vacuity: one reachable return is enough; try the returns one after the other
			if smokeDone {
				results[i] = siteResult{o, SolveResult{Status: "sat", Backend: "skipped"}, 0, ""}
				continue
			}
			termMu.Lock()
			x.instLevel = 2
			smt, _, _, _ := x.buildQuery(o, false, false)
			termMu.Unlock()
			to := cfg.TimeoutS
			if to > 15 {
				to = 15
			}
			r := solve(fmt.Sprintf("%s.%d", o.Name, i), smt, nil, to, false)
			if r.Status == "sat" || r.Status == "unknown" || r.Status == "timeout" {
				smokeDone = true
			}
			results[i] = siteResult{o, r, 0, ""}
			continue
		}
		if o.goal == True {
			results[i] = siteResult{o, SolveResult{Status: "unsat", Backend: "trivial"}, 0, ""}
			continue
		}
		termMu.Lock()
		x.instLevel = 2
		smt, gv, nq, nop := x.buildQuery(o, false, false)
		var staged []string
		if nq > 0 {
			// first attempt: instances found by matching the read patterns of the quantified hypotheses (few, relevant)
			x.instLevel = 4
			s4, _, _, _ := x.buildQuery(o, false, false)
			x.instLevel = 2
			staged = []string{s4}
		}
		if nq > 0 && len(smt) > 400000 && !cfg.Fast && cfg.Unroll == 0 {
			// big query: cheaper attempts first: no instances of the quantified hypotheses, then instances at the goal's own terms
			x.instLevel = 0
			s0, _, _, _ := x.buildQuery(o, false, false)
			x.instLevel = 1
			s1, _, _, _ := x.buildQuery(o, false, false)
			x.instLevel = 3
			s3, _, _, _ := x.buildQuery(o, false, false)
			x.instLevel = 2
			staged = append(staged, s0, s1, s3)
		}
		var smtExact string
		if nop > 0 {
			x.instLevel = 2
			smtExact, _, _, _ = x.buildQuery(o, nq > 0, true)
		}
		if cfg.KeepSMT != "" {
			os.MkdirAll(cfg.KeepSMT, 0o755)
			os.WriteFile(fmt.Sprintf("%s/%s.%d.smt2", cfg.KeepSMT, smtName(o.Name), i), []byte(smt), 0o644)
		}
		var smtQ string
		if nq > 0 {
			x.instLevel = 2
			smtQ, _, _, _ = x.buildQuery(o, true, false)
		}
		termMu.Unlock()
		wg.Add(1)
		sem <- struct{}{}
		go func() {
			defer wg.Done()
			defer func() { <-sem }()
			name := fmt.Sprintf("%s.%d", o.Name, i)
			triedPaths := false
			pathSplit := func() (SolveResult, bool) {
				triedPaths = true
				// path split: the obligation's path condition is a disjunction of the paths merged on the way; each
				// path is checked on its own, with every branch condition it fixes replaced by its value
				if paths := pathDNF(o.hyp, 8); len(paths) >= 2 {
					n := len(paths)
					q := make([]string, n)
					qq := make([]string, n)
					termMu.Lock()
					for k, lits := range paths {
						x.caseSub = map[*Term]*Term{}
						x.caseAssert = True
						for _, l := range lits {
							if l.Op == "not" {
								x.caseSub[l.Args[0]] = False
							} else {
								x.caseSub[l] = True
							}
							x.caseAssert = And(x.caseAssert, l)
						}
						x.instLevel = 4
						q[k], _, _, _ = x.buildQuery(o, false, false)
						x.instLevel = 2
						qq[k], _, _, _ = x.buildQuery(o, false, false)
					}
					x.caseSub, x.caseAssert = nil, nil
					termMu.Unlock()
					ok := true
					secs := 0.0
					be := ""
					for k := 0; k < n && ok; k++ {
						rk := solve(fmt.Sprintf("%s.p%d", name, k), q[k], nil, cfg.TimeoutS, false)
						secs += rk.Secs
						if rk.Status != "unsat" {
							rk = solve(fmt.Sprintf("%s.p%df", name, k), qq[k], nil, cfg.TimeoutS, false)
							secs += rk.Secs
						}
						ok = rk.Status == "unsat"
						be = rk.Backend
						if os.Getenv("SCTPVC_DEBUG") != "" {
							fmt.Fprintf(os.Stderr, "PATHSPLIT %s path=%d/%d -> %s (%.1fs)\n", name, k, n, rk.Status, rk.Secs)
						}
					}
					if ok {
						return SolveResult{Status: "unsat", Backend: be, Secs: secs}, true
					}
				}
				return SolveResult{}, false
			}
			for k, s := range staged {
				to := cfg.TimeoutS / 3
				if to < 5 {
					to = 5
				}
				rs := solve(fmt.Sprintf("%s.s%d", name, k), s, nil, to, false)
				if rs.Status == "unsat" {
					mu.Lock()
					results[i] = siteResult{o, rs, nq, ""}
					mu.Unlock()
					return
				}
				if k == 0 && !o.Smoke && cfg.Unroll == 0 {
					// the cheap attempt failed: before the heavy ones, try the paths one by one
					if rp, ok := pathSplit(); ok {
						rp.Secs += rs.Secs
						mu.Lock()
						results[i] = siteResult{o, rp, nq, ""}
						mu.Unlock()
						return
					}
				}
			}
			r := solve(name, smt, gv, cfg.TimeoutS, cfg.WantAll && !o.Smoke)
			if nq > 0 && r.Status != "unsat" && !o.Smoke {
				// a model of an under-instantiated query is not a counterexample: retry with quantifiers
				r2 := solve(name+".q", smtQ, gv, cfg.TimeoutS, false)
				if r2.Status == "unsat" || r2.Status == "sat" {
					r = r2
				} else if r.Status == "sat" {
					r.Status = "unknown"
					r.Output = "sat on instantiated query only (quantified hypotheses not fully used)\n" + r.Output
				}
			}
			if nop > 0 && r.Status != "unsat" && !o.Smoke && !cfg.Fast {
				// opaque operators over-approximate: only the exact query can refute
				r3 := solve(name+".x", smtExact, gv, cfg.TimeoutS, false)
				if r3.Status == "unsat" || r3.Status == "sat" {
					r = r3
				} else if r.Status == "sat" {
					r.Status = "unknown"
					r.Output = "sat only with opaque remainder (over-approximation)\n" + r.Output
				}
			}
			if r.Status != "unsat" && r.Status != "sat" && !o.Smoke && !triedPaths && cfg.Unroll == 0 {
				if rp, ok := pathSplit(); ok {
					rp.Secs += r.Secs
					r = rp
				}
			}
			if r.Status != "unsat" && r.Status != "sat" && !o.Smoke && !cfg.Fast && cfg.Unroll == 0 {
				// case split on a merge condition of the goal: each half is simplified under the assumed value,
				// which lets the instantiation patterns see through the ite terms of merged paths
				conds := splitConds(o.goal, o.hyp)
				var plans [][]*Term
				for _, c := range conds {
					plans = append(plans, []*Term{c})
				}
				if len(conds) >= 2 {
					plans = append(plans, conds[:2])
				}
				if len(conds) >= 3 {
					plans = append(plans, conds[:3])
				}
				if len(conds) >= 4 {
					plans = append(plans, conds[:4])
				}
				splitStart := time.Now()
				for _, plan := range plans {
					if time.Since(splitStart).Seconds() > 3*float64(cfg.TimeoutS) {
						break
					}
					n := 1 << len(plan)
					q := make([]string, n)
					qq := make([]string, n)
					termMu.Lock()
					for k := 0; k < n; k++ {
						x.caseSub = map[*Term]*Term{}
						x.caseAssert = True
						for b, c := range plan {
							if k>>b&1 == 0 {
								x.caseSub[c] = True
								x.caseAssert = And(x.caseAssert, c)
							} else {
								x.caseSub[c] = False
								x.caseAssert = And(x.caseAssert, Not(c))
							}
						}
						x.instLevel = 2
						q[k], _, _, _ = x.buildQuery(o, false, false)
						if nq > 0 {
							qq[k], _, _, _ = x.buildQuery(o, true, false)
						}
					}
					x.caseSub, x.caseAssert = nil, nil
					termMu.Unlock()
					ok := true
					secs := 0.0
					be := ""
					for k := 0; k < n && ok; k++ {
						rk := solve(fmt.Sprintf("%s.c%d", name, k), q[k], nil, cfg.TimeoutS, false)
						secs += rk.Secs
						if rk.Status != "unsat" && nq > 0 {
							rk = solve(fmt.Sprintf("%s.c%dq", name, k), qq[k], nil, cfg.TimeoutS, false)
							secs += rk.Secs
						}
						ok = rk.Status == "unsat"
						be = rk.Backend
						if os.Getenv("SCTPVC_DEBUG") != "" {
							fmt.Fprintf(os.Stderr, "SPLIT %s plan=%d case=%d -> %s (%.1fs) %s\n", name, len(plan), k, rk.Status, rk.Secs, truncate(rk.Output, 300))
							for _, c := range plan {
								fmt.Fprintf(os.Stderr, "   cond %s\n", c.Short())
							}
						}
					}
					if ok {
						r = SolveResult{Status: "unsat", Backend: be, Secs: r.Secs + secs}
						break
					}
				}
			}
			if o.Smoke && nop > 0 && r.Status == "sat" {
				// smoke tests want a genuine model; an over-approximate sat is good enough to show non-vacuity of the hypotheses used
			}
			mu.Lock()
			results[i] = siteResult{o, r, nq, smt}
			mu.Unlock()
		}()
	}
	wg.Wait()
	// aggregate by name
	byName := map[string]*OblResult{}
	var order []string
	for _, sr := range results {
		o := sr.o
		ag := byName[o.Name]
		if ag == nil {
			ag = &OblResult{Name: o.Name, Func: o.Func, Kind: o.Kind, Tags: o.Tags, Status: "proved", Src: o.Src, Smoke: o.Smoke, backends: map[string]int{}}
			byName[o.Name] = ag
			order = append(order, o.Name)
		}
		ag.Sites++
		ag.Secs += sr.res.Secs
		if sr.res.Status != "unsat" && os.Getenv("SCTPVC_ALLSITES") != "" {
			fmt.Fprintf(os.Stderr, "FAILSITE %s [%s] %s\n", o.Name, sr.res.Status, o.Site)
		}
		switch sr.res.Status {
		case "unsat":
			ag.backends[sr.res.Backend]++
		case "sat":
			if ag.Status != "refuted" {
				ag.Status = "refuted"
				ag.FailSMT = sr.smt
				ag.FailSite = o.Site
				ag.Model = map[string]string{}
				for k, val := range sr.res.Model {
					if n, ok := x.modelNames[k]; ok {
						k = n
					}
					ag.Model[k] = val
				}
				ag.Output = truncate(sr.res.Output, 4000)
				ag.Backend = sr.res.Backend
			}
		case "error":
			if ag.Status == "proved" || ag.Status == "unknown" {
				ag.Status = "error"
				ag.FailSite = o.Site
				ag.Output = truncate(sr.res.Output, 4000)
			}
		default:
			if ag.Status == "proved" {
				ag.Status = "unknown"
				ag.FailSite = o.Site
				ag.Output = truncate(sr.res.Output, 4000)
			}
		}
	}
	var out []*OblResult
	for _, n := range order {
		ag := byName[n]
		best := ""
		bn := 0
		for b, k := range ag.backends {
			if k > bn || (k == bn && b < best) {
				best, bn = b, k
			}
		}
		if ag.Status == "proved" {
			ag.Backend = best
		}
		out = append(out, ag)
	}
	return out
}

// verifyFunction runs the complete pipeline for one contract.
func verifyFunction(p *Program, c *Contract, cfg Config, filter func(o *Obl) bool) (rep *FuncReport) {
	t0 := time.Now()
	rep = &FuncReport{Key: c.Key}
	defer func() { rep.Wall = time.Since(t0).Seconds() }()
	if cfg.Unroll > 0 {
		// bounded fall-back: the interface of the contract only; clauses about loops are dropped
		if !c.usableAtCalls() {
			rep.Errors = append(rep.Errors, "anchor-lost: the pre/postconditions themselves cannot be bound")
			return rep
		}
		cc := *c
		cc.Loops = map[int]*LoopSpec{}
		cc.BindErr = nil
		c = &cc
	}
	if len(c.BindErr) > 0 {
		for _, e := range c.BindErr {
			rep.Errors = append(rep.Errors, "anchor-lost: "+e)
		}
		return rep
	}
	resetTerms()
	heapSymMemo = map[int]map[string]bool{}
	x := newFnExec(p, c.Fn, c)
	x.unroll = cfg.Unroll
	func() {
		defer func() {
			if r := recover(); r != nil {
				msg := fmt.Sprint(r)
				if strings.HasPrefix(msg, "runtime error") || os.Getenv("SCTPVC_PANIC") != "" {
					panic(r)
				}
				rep.Errors = append(rep.Errors, "engine: "+msg)
			}
		}()
		x.generate()
	}()
	for _, e := range x.errors {
		if cfg.Unroll > 0 && !strings.HasPrefix(e, "engine:") {
			continue // an interior assertion that cannot be bound either: not part of the bounded check
		}
		rep.Errors = append(rep.Errors, e)
	}
	for n := range x.notes {
		rep.Notes = append(rep.Notes, n)
	}
	sort.Strings(rep.Notes)
	rep.Inlined = sortedKeys(x.inlined)
	rep.Abstracted = sortedKeys(x.abstracted)
	rep.Assumed = sortedKeys(x.assumed)
	if len(rep.Errors) > 0 {
		return rep
	}
	res := x.discharge(cfg, filter)
	rep.SmokeOK = true
	for _, r := range res {
		if r.Smoke {
			if r.Status == "proved" {
				rep.SmokeOK = false
				rep.SmokeMsg = "vacuous: 'false' is provable at a return of " + c.Key + " (contradictory precondition, invariant or callee contract)"
			}
			continue
		}
		rep.Results = append(rep.Results, r)
	}
	// an assertion marked LEMMA is a hypothesis for everything after it: when it is not proved, nothing else is
	for _, ac := range c.AtStores {
		if !hasTag(ac.Clause.Tags, "LEMMA") {
			continue
		}
		name := c.Key + ":at store " + strings.TrimPrefix(ac.Callee, "map:") + ":assert#" + ac.Clause.Label
		ran, proved := false, false
		for _, r := range rep.Results {
			if r.Name == name {
				ran = true
				proved = r.Status == "proved"
			}
		}
		if ran && !proved {
			for _, r := range rep.Results {
				if r.Name != name && r.Status == "proved" && r.Kind != "safe" {
					r.Status = "unknown"
					r.Output = "relies on the lemma assert#" + ac.Clause.Label + ", which is not proved"
				}
			}
		}
	}
	// a postcondition proved with the help of a LEMMA clause that is itself not proved is not proved
	broken := ""
	for _, cl := range c.Ensures {
		name := c.Key + ":post#" + cl.Label
		for _, r := range rep.Results {
			if r.Name != name {
				continue
			}
			if broken != "" && r.Status == "proved" {
				r.Status = "unknown"
				r.Output = "relies on the lemma post#" + broken + ", which is not proved"
			}
		}
		if hasTag(cl.Tags, "LEMMA") && broken == "" {
			proved := false
			for _, r := range rep.Results {
				if r.Name == name && r.Status == "proved" {
					proved = true
				}
			}
			ran := false
			for _, r := range rep.Results {
				if r.Name == name {
					ran = true
				}
			}
			if ran && !proved {
				broken = cl.Label
			}
		}
	}
	return rep
}

const packageKey = "(package)"

// verifyWriters discharges the "writers" frame obligations by a syntactic scan of every function in the package:
// a field may be stored to directly only by the listed functions.
func verifyWriters(p *Program) *FuncReport {
	rep := &FuncReport{Key: packageKey, SmokeOK: true}
	if len(p.SerialAudit) > 0 {
		sites := seqSites(p)
		r := &OblResult{Name: "serial-audit", Func: packageKey, Kind: "audit", Tags: p.SerialAudit, Status: "proved", Backend: "frame-scan", Sites: len(sites) + 1,
			Src: "every ordering comparison between two sequence-number values goes through the RFC 1982 helpers (a raw <,<=,>,>= or the builtins max/min differ from serial order for operands more than half the space apart)"}
		if len(sites) > 0 {
			// a raw comparison of unconstrained sequence numbers never equals the serial comparison: shown by the solver
			resetTerms()
			a, b := Sym("a", BV(32)), Sym("b", BV(32))
			d := BVBin("bvsub", b, a)
			ser := And(Not(Eq(d, BVU(0, 32))), BVCmp("bvult", d, BVU(1<<31, 32)))
			w := newSMTWriter()
			w.assert(Not(Eq(BVCmp("bvult", a, b), ser)))
			res := solve("serial-audit", w.sb.String(), []string{"a", "b"}, 20, false)
			r.Status = "refuted"
			if res.Status != "sat" {
				r.Status = "unknown"
			}
			r.Model = res.Model
			r.Backend = res.Backend
			r.FailSite = "raw comparison of sequence numbers at " + strings.Join(sites, "; ")
			r.Output = r.FailSite + "\n" + res.Output
		}
		rep.Results = append(rep.Results, r)
	}
	if len(p.Writers) == 0 {
		return rep
	}
	writers := map[string]map[string]bool{}
	var scan func(fn *ssa.Function, owner string)
	scan = func(fn *ssa.Function, owner string) {
		for _, b := range fn.Blocks {
			for _, in := range b.Instrs {
				if s, ok := in.(*ssa.Store); ok {
					pre := staticAddrPrefix(s.Addr)
					if writers[pre] == nil {
						writers[pre] = map[string]bool{}
					}
					writers[pre][owner] = true
				}
			}
		}
		for _, af := range fn.AnonFuncs {
			scan(af, owner)
		}
	}
	for k, fn := range p.FuncByKey {
		if fn.Parent() != nil {
			continue
		}
		if isSpecFile(p, fn) {
			continue
		}
		scan(fn, k)
	}
	for _, oi := range p.ObjInvs {
		rep.Results = append(rep.Results, p.checkObjInv(oi, rep))
	}
	for _, nn := range p.NonNils {
		rep.Results = append(rep.Results, p.checkNonNil(nn, rep))
	}
	for _, ws := range p.Writers {
		r := &OblResult{Name: "writers#" + ws.Field, Func: packageKey, Kind: "writers", Tags: ws.Tags, Status: "proved", Backend: "frame-scan", Sites: 1,
			Src: "only " + strings.Join(ws.Allowed, ", ") + " store to " + ws.Field}
		allowed := map[string]bool{}
		for _, a := range ws.Allowed {
			allowed[a] = true
			if p.FuncByKey[a] == nil {
				rep.Errors = append(rep.Errors, fmt.Sprintf("anchor-lost: writers %s: function %s not found", ws.Field, a))
			}
		}
		var extra []string
		for w := range writers["F:"+ws.Field] {
			if !allowed[w] {
				extra = append(extra, w)
			}
		}
		sort.Strings(extra)
		if len(extra) > 0 {
			r.Status = "refuted"
			r.FailSite = "unlisted writer(s): " + strings.Join(extra, ", ")
			r.Output = r.FailSite
		}
		r.Sites = len(writers["F:"+ws.Field])
		rep.Results = append(rep.Results, r)
	}
	return rep
}


// checkObjInv discharges the side conditions of an object-invariant declaration by a scan of the whole package:
//  1. encapsulation: the struct's fields are read or written, and objects of the type are allocated, only inside the
//     type's own methods and the listed constructors;
//  2. preservation: every method / constructor either has a contract whose postconditions contain every listed predicate
//     (for the receiver, resp. the result) unconditionally, or writes none of the fields and element arrays the
//     predicates mention (inferred write set);
//  3. no re-entry: methods call only methods of the type or functions that write none of those locations.
func (p *Program) checkObjInv(oi *ObjInv, rep *FuncReport) *OblResult {
	r := &OblResult{Name: "objinv#" + oi.Type, Func: packageKey, Kind: "objinv", Tags: oi.Tags, Status: "proved", Backend: "frame-scan", Sites: 0,
		Src: "object invariant of " + oi.Type + " (" + strings.Join(oi.Preds, ", ") + "): fields encapsulated, established by " + strings.Join(oi.Ctors, ", ") + ", preserved by every method"}
	var problems []string
	var named *types.Named
	if tn, ok := p.SSA.Members[oi.Type].(*ssa.Type); ok {
		named, _ = tn.Type().(*types.Named)
	}
	if named == nil {
		rep.Errors = append(rep.Errors, "anchor-lost: objinv: type "+oi.Type+" not found")
		r.Status = "error"
		return r
	}
	st, _ := named.Underlying().(*types.Struct)
	if st == nil {
		rep.Errors = append(rep.Errors, "anchor-lost: objinv: "+oi.Type+" is not a struct")
		r.Status = "error"
		return r
	}
	for _, c := range oi.Ctors {
		if p.FuncByKey[c] == nil {
			rep.Errors = append(rep.Errors, "anchor-lost: objinv "+oi.Type+": constructor "+c+" not found")
		}
	}
	// locations the predicates talk about
	inv := map[string]bool{}
	for _, pn := range oi.Preds {
		pr := p.Preds[pn]
		if pr == nil {
			rep.Errors = append(rep.Errors, "anchor-lost: objinv "+oi.Type+": predicate "+pn+" not found")
			continue
		}
		for i := 0; i < st.NumFields(); i++ {
			f := st.Field(i)
			re := regexp.MustCompile(`\.` + regexp.QuoteMeta(f.Name()) + `\b`)
			used := false
			for _, c := range pr.Clauses {
				if re.MatchString(c.Src) {
					used = true
				}
			}
			if !used {
				continue
			}
			for _, l := range leaves(f.Type()) {
				inv["F:"+oi.Type+"."+f.Name()+l.path] = true
			}
			if sl, ok := f.Type().Underlying().(*types.Slice); ok {
				for _, l := range leaves(sl.Elem()) {
					inv["E:"+typeName(sl.Elem())+l.path] = true
				}
			}
		}
	}
	invField := func(f *types.Var) bool {
		for _, l := range leaves(f.Type()) {
			if inv["F:"+oi.Type+"."+f.Name()+l.path] {
				return true
			}
		}
		return false
	}
	scalarField := func(f *types.Var) bool {
		_, ok := f.Type().Underlying().(*types.Basic)
		return ok
	}
	onlyLoaded := func(fa *ssa.FieldAddr) bool {
		refs := fa.Referrers()
		if refs == nil {
			return false
		}
		for _, u := range *refs {
			switch t := u.(type) {
			case *ssa.UnOp:
				if t.Op != token.MUL {
					return false
				}
			case *ssa.DebugRef:
			default:
				return false
			}
		}
		return true
	}
	isStruct := func(t types.Type) bool {
		if pt, ok := t.Underlying().(*types.Pointer); ok {
			t = pt.Elem()
		}
		n, ok := t.(*types.Named)
		return ok && n.Obj() == named.Obj()
	}
	// which members are called from outside the type
	calledFromOutside := map[string]bool{}
	for _, fn := range p.FuncByKey {
		if isSpecFile(p, fn) || p.memberOf(fn, oi) {
			continue
		}
		for _, b := range fn.Blocks {
			for _, in := range b.Instrs {
				if ci, ok := in.(ssa.CallInstruction); ok {
					if callee := ci.Common().StaticCallee(); callee != nil && p.inPackage(callee) && p.memberOf(callee, oi) {
						calledFromOutside[funcKey(callee)] = true
					}
				}
			}
		}
	}
	for k, fn := range p.FuncByKey {
		if fn.Parent() != nil || isSpecFile(p, fn) {
			continue
		}
		member := p.memberOf(fn, oi)
		var walk func(f *ssa.Function)
		walk = func(f *ssa.Function) {
			for _, b := range f.Blocks {
				for _, in := range b.Instrs {
					switch t := in.(type) {
					case *ssa.FieldAddr:
						if !member && isStruct(t.X.Type()) && invField(st.Field(t.Field)) {
							// reading a scalar the invariant mentions is harmless; a store, or getting hold of a slice,
							// map or pointer whose target the invariant constrains, is not
							if !scalarField(st.Field(t.Field)) || !onlyLoaded(t) {
								problems = append(problems, k+" can write "+oi.Type+"."+st.Field(t.Field).Name()+" (or what it refers to) from outside the type")
							}
						}
					case *ssa.Field:
						if !member && isStruct(t.X.Type()) && invField(st.Field(t.Field)) && !scalarField(st.Field(t.Field)) {
							problems = append(problems, k+" takes "+oi.Type+"."+st.Field(t.Field).Name()+" out of the type")
						}
					case *ssa.Alloc:
						if !member && isStruct(t.Type()) {
							problems = append(problems, k+" allocates a "+oi.Type)
						}
					case ssa.CallInstruction:
						if !member {
							continue
						}
						// no re-entry through foreign code that writes invariant locations
						callee := t.Common().StaticCallee()
						if callee == nil {
							if _, isB := t.Common().Value.(*ssa.Builtin); !isB {
								problems = append(problems, k+" makes a dynamic call")
							}
							continue
						}
						if p.inPackage(callee) && !p.memberOf(callee, oi) {
							e := p.effectsOf(callee)
							if e.top {
								problems = append(problems, k+" calls "+funcKey(callee)+" whose effects are unknown")
							}
							for key := range e.keys {
								if inv[key] {
									problems = append(problems, k+" calls "+funcKey(callee)+" which writes "+key)
								}
							}
						}
					}
				}
			}
			for _, af := range f.AnonFuncs {
				walk(af)
			}
		}
		walk(fn)
		if !member {
			continue
		}
		r.Sites++
		if !calledFromOutside[k] {
			isC := false
			for _, cn := range oi.Ctors {
				if cn == k {
					isC = true
				}
			}
			if !isC {
				continue // helper used only inside the type: part of its callers' proofs
			}
		}
		// preservation
		c := p.Contracts[k]
		isCtor := false
		for _, cn := range oi.Ctors {
			if cn == k {
				isCtor = true
			}
		}
		have := map[string]bool{}
		if c != nil {
			for _, cl := range c.Ensures {
				for _, pn := range oi.Preds {
					if strings.HasPrefix(cl.Label, pn+".") && !hasTag(cl.Tags, "TRUSTED") {
						have[pn] = true
					}
				}
			}
		}
		all := true
		for _, pn := range oi.Preds {
			if !have[pn] {
				all = false
			}
		}
		if all {
			continue
		}
		if isCtor {
			problems = append(problems, "constructor "+k+" has no postcondition establishing "+strings.Join(oi.Preds, ", "))
			continue
		}
		if c != nil && c.HasMod && len(c.Modifies) == 0 {
			continue // modifies nothing (its frame obligation is proved separately)
		}
		e := p.effectsOf(fn)
		if e.top {
			problems = append(problems, "method "+k+" has unknown effects and no postcondition re-establishing the invariant")
			continue
		}
		for key := range e.keys {
			if inv[key] {
				problems = append(problems, "method "+k+" writes "+key+" and has no postcondition re-establishing the invariant")
			}
		}
	}
	sort.Strings(problems)
	if len(problems) > 0 {
		r.Status = "refuted"
		r.FailSite = problems[0]
		r.Output = strings.Join(problems, "\n")
	}
	return r
}


// checkNonNil discharges a nonnil declaration by a package scan: the listed fields are stored to only in the listed
// constructors, every value stored there is visibly non-nil (a fresh allocation, make, closure, or the result of an
// in-package function all of whose returns are such), and objects of the type are allocated only in the constructors.
func (p *Program) checkNonNil(nn *NonNil, rep *FuncReport) *OblResult {
	r := &OblResult{Name: "nonnil#" + nn.Type, Func: packageKey, Kind: "nonnil", Tags: nn.Tags, Status: "proved", Backend: "frame-scan", Sites: 0,
		Src: "fields " + strings.Join(nn.Fields, ", ") + " of " + nn.Type + " are set once, to a non-nil value, by " + strings.Join(nn.Ctors, ", ")}
	var named *types.Named
	if tn, ok := p.SSA.Members[nn.Type].(*ssa.Type); ok {
		named, _ = tn.Type().(*types.Named)
	}
	if named == nil {
		rep.Errors = append(rep.Errors, "anchor-lost: nonnil: type "+nn.Type+" not found")
		r.Status = "error"
		return r
	}
	st, _ := named.Underlying().(*types.Struct)
	want := map[string]bool{}
	for _, f := range nn.Fields {
		found := false
		for i := 0; st != nil && i < st.NumFields(); i++ {
			if st.Field(i).Name() == f {
				found = true
			}
		}
		if !found {
			rep.Errors = append(rep.Errors, "anchor-lost: nonnil "+nn.Type+": field "+f+" not found")
		}
		want[f] = true
	}
	ctor := map[string]bool{}
	for _, c := range nn.Ctors {
		ctor[c] = true
		if p.FuncByKey[c] == nil {
			rep.Errors = append(rep.Errors, "anchor-lost: nonnil "+nn.Type+": constructor "+c+" not found")
		}
	}
	var nonNilValue func(v ssa.Value, depth int) bool
	nonNilValue = func(v ssa.Value, depth int) bool {
		switch t := v.(type) {
		case *ssa.Alloc, *ssa.MakeMap, *ssa.MakeChan, *ssa.MakeSlice, *ssa.MakeClosure, *ssa.Function:
			return true
		case *ssa.MakeInterface:
			return true
		case *ssa.ChangeType:
			return nonNilValue(t.X, depth)
		case *ssa.Call:
			callee := t.Call.StaticCallee()
			if callee == nil || depth > 2 {
				return false
			}
			if !p.inPackage(callee) {
				switch callee.String() {
				case "time.NewTimer", "context.WithCancel", "github.com/pion/logging.(*DefaultLoggerFactory).NewLogger":
					return true
				}
				return false
			}
			if len(callee.Blocks) == 0 {
				return false
			}
			any := false
			for _, b := range callee.Blocks {
				for _, in := range b.Instrs {
					if ret, ok := in.(*ssa.Return); ok {
						if len(ret.Results) == 0 {
							return false
						}
						any = true
						if !nonNilValue(ret.Results[0], depth+1) {
							return false
						}
					}
				}
			}
			return any
		case *ssa.Phi:
			for _, e := range t.Edges {
				if e != v && !nonNilValue(e, depth+1) {
					return false
				}
			}
			return true
		case *ssa.Extract:
			return false
		}
		return false
	}
	isStruct := func(t types.Type) bool {
		if pt, ok := t.Underlying().(*types.Pointer); ok {
			t = pt.Elem()
		}
		n, ok := t.(*types.Named)
		return ok && n.Obj() == named.Obj()
	}
	var problems []string
	for k, fn := range p.FuncByKey {
		if fn.Parent() != nil || isSpecFile(p, fn) {
			continue
		}
		var walk func(f *ssa.Function)
		walk = func(f *ssa.Function) {
			for _, b := range f.Blocks {
				for _, in := range b.Instrs {
					switch t := in.(type) {
					case *ssa.Alloc:
						if isStruct(t.Type()) && !ctor[k] {
							problems = append(problems, k+" allocates a "+nn.Type)
						}
					case *ssa.Store:
						fa, ok := t.Addr.(*ssa.FieldAddr)
						if !ok || !isStruct(fa.X.Type()) || !want[st.Field(fa.Field).Name()] {
							continue
						}
						r.Sites++
						fname := st.Field(fa.Field).Name()
						if !ctor[k] {
							problems = append(problems, k+" stores to "+nn.Type+"."+fname)
						} else if !nonNilValue(t.Val, 0) {
							problems = append(problems, k+" stores a value to "+nn.Type+"."+fname+" that is not visibly non-nil")
						}
					}
				}
			}
			for _, af := range f.AnonFuncs {
				walk(af)
			}
		}
		walk(fn)
	}
	// every listed field must actually be set by each constructor that allocates the type
	for _, cn := range nn.Ctors {
		fn := p.FuncByKey[cn]
		if fn == nil {
			continue
		}
		allocs := false
		set := map[string]bool{}
		for _, b := range fn.Blocks {
			for _, in := range b.Instrs {
				switch t := in.(type) {
				case *ssa.Alloc:
					if isStruct(t.Type()) {
						allocs = true
					}
				case *ssa.Store:
					if fa, ok := t.Addr.(*ssa.FieldAddr); ok && isStruct(fa.X.Type()) {
						set[st.Field(fa.Field).Name()] = true
					}
				}
			}
		}
		if allocs {
			for _, f := range nn.Fields {
				if !set[f] {
					problems = append(problems, "constructor "+cn+" never sets "+nn.Type+"."+f)
				}
			}
		}
	}
	sort.Strings(problems)
	if len(problems) > 0 {
		r.Status = "refuted"
		r.FailSite = problems[0]
		r.Output = strings.Join(problems, "\n")
	}
	return r
}
