package main

import (
	"flag"
	"fmt"
	"os"
	"regexp"
	"sort"
	"strings"
)

// exit removes the scratch directory of solver files before leaving (deferred calls do not run on os.Exit).
func exit(code int) {
	cleanupWorkDir()
	os.Exit(code)
}

func main() {
	if len(os.Args) < 2 {
		fmt.Fprintln(os.Stderr, "usage: sctpvc dev|check|baseline|replay ...")
		os.Exit(2)
	}
	defer cleanupWorkDir()
	switch os.Args[1] {
	case "dev":
		exit(cmdDev(os.Args[2:]))
	case "check":
		exit(cmdCheck(os.Args[2:]))
	case "baseline":
		exit(cmdBaseline(os.Args[2:]))
	case "seqscan":
		p, err := loadProgram("/repo")
		if err != nil {
			fmt.Println(err)
			os.Exit(2)
		}
		if len(os.Args) > 2 && os.Args[2] == "users" {
			snaUsers(p)
		} else {
			seqScan(p)
		}
		os.Exit(0)
	case "effects":
		p, err := loadProgram("/repo")
		if err != nil {
			fmt.Println(err)
			os.Exit(2)
		}
		for _, k := range os.Args[2:] {
			fn := p.FuncByKey[k]
			if fn == nil {
				fmt.Println(k, ": not found")
				continue
			}
			e := p.effectsOf(fn)
			fmt.Println(k, "top=", e.top, "keys=", sortedKeys(e.keys))
			if e.top {
				p.explainTop(fn, map[string]bool{}, "  ")
			}
		}
		os.Exit(0)
	case "replay":
		os.Exit(cmdReplay(os.Args[2:]))
	}
	fmt.Fprintln(os.Stderr, "unknown command", os.Args[1])
	os.Exit(2)
}

func hasTag(tags []string, t string) bool {
	for _, x := range tags {
		if x == t {
			return true
		}
	}
	return false
}

func cmdDev(args []string) int {
	fs := flag.NewFlagSet("dev", flag.ExitOnError)
	fpat := fs.String("f", ".", "regexp on contract keys")
	tag := fs.String("tag", "", "only obligations with this tag")
	opat := fs.String("o", "", "regexp on obligation names")
	timeout := fs.Int("t", 30, "solver timeout (s)")
	jobs := fs.Int("j", 5, "parallel obligations")
	repo := fs.String("repo", "/repo", "repository")
	verbose := fs.Bool("v", false, "verbose")
	keep := fs.String("keep", "", "directory to keep SMT files")
	fast := fs.Bool("fast", false, "main query only (development)")
	unroll := fs.Int("unroll", 0, "bounded mode: unroll loops this many times and ignore loop clauses")
	fs.Parse(args)
	p, err := loadProgram(*repo)
	if err != nil {
		fmt.Println("LOAD ERROR:", err)
		return 2
	}
	re := regexp.MustCompile(*fpat)
	var ore *regexp.Regexp
	if *opat != "" {
		ore = regexp.MustCompile(*opat)
	}
	cfg := Config{TimeoutS: *timeout, Jobs: *jobs, Verbose: *verbose, KeepSMT: *keep, Fast: *fast, Unroll: *unroll}
	bad := 0
	for _, key := range p.Order {
		c := p.Contracts[key]
		if !re.MatchString(key) || c.Trusted || c.NoVerify {
			continue
		}
		filter := func(o *Obl) bool {
			if o.Smoke {
				return true
			}
			if ore != nil && !ore.MatchString(o.Name) {
				return false
			}
			if *tag != "" && !hasTag(o.Tags, *tag) && !(o.Kind == "safe" && hasTag(c.Safety, *tag)) {
				return false
			}
			return true
		}
		rep := verifyFunction(p, c, cfg, filter)
		fmt.Printf("== %s  (%.1fs)\n", key, rep.Wall)
		for _, e := range rep.Errors {
			fmt.Println("   ERROR:", e)
			bad++
		}
		if !rep.SmokeOK && len(rep.Errors) == 0 {
			fmt.Println("   SMOKE:", rep.SmokeMsg)
			bad++
		}
		for _, r := range rep.Results {
			fmt.Printf("   %-8s %-60s sites=%d %s %.2fs\n", r.Status, r.Name, r.Sites, r.Backend, r.Secs)
			if r.Status != "proved" {
				bad++
				fmt.Printf("            at %s\n", r.FailSite)
				if *verbose || r.Status == "refuted" {
					var ks []string
					for k := range r.Model {
						ks = append(ks, k)
					}
					sort.Strings(ks)
					for _, k := range ks {
						fmt.Printf("            %s = %s\n", k, r.Model[k])
					}
				}
				if *verbose {
					fmt.Println(indent(r.Output, "            | "))
				}
			}
		}
		if *verbose {
			for _, n := range rep.Notes {
				fmt.Println("   note:", n)
			}
			fmt.Println("   inlined:", strings.Join(rep.Inlined, ", "))
			fmt.Println("   abstracted:", strings.Join(rep.Abstracted, ", "))
		}
	}
	if re.MatchString(packageKey) || *fpat == "." {
		rep := verifyWriters(p)
		fmt.Printf("== %s\n", packageKey)
		for _, e := range rep.Errors {
			fmt.Println("   ERROR:", e)
			bad++
		}
		for _, r := range rep.Results {
			fmt.Printf("   %-8s %-60s sites=%d %s\n", r.Status, r.Name, r.Sites, r.Backend)
			if r.Status != "proved" {
				bad++
				fmt.Println("            ", r.FailSite)
			}
		}
	}
	if bad > 0 {
		return 1
	}
	return 0
}

func indent(s, pre string) string {
	return pre + strings.ReplaceAll(strings.TrimRight(s, "\n"), "\n", "\n"+pre)
}

