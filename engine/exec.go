package main

// Symbolic execution of go/ssa functions into verification conditions.

import (
	"os"
	"fmt"
	"go/ast"
	"go/constant"
	"go/token"
	"go/types"
	"math/big"
	"sort"
	"strings"

	"golang.org/x/tools/go/ssa"
)

type Fact struct {
	seq    int
	t      *Term
	global bool // unconditional truth about the pre-state or a global (recorded once): never pruned by branch
	origin string // "kind#label" for facts that come from a contract clause
}

type QFact struct {
	seq    int
	pc     *Term
	vars   []*Term // bvar terms
	body   *Term   // mentions vars
	origin string
	global bool // exempt from block-reachability pruning
}

type Obl struct {
	Name  string // aggregated, stable: "<func>:<kind>#<label>"
	Site  string
	Kind  string
	Tags  []string
	seq   int
	hyp   *Term
	goal  *Term
	Smoke bool // expected to be refutable (vacuity check)
	Func  string
	Src   string
	skolems []*Term
	blk   *ssa.BasicBlock // top-level block the obligation belongs to (nil: derive from seq)
}

type allocRec struct {
	ref *Term
	seq int
}

type fnExec struct {
	P        *Program
	top      *ssa.Function
	C        *Contract
	facts    []Fact
	qfacts   []*QFact
	obls     []*Obl
	seq      int
	notes    map[string]bool
	epochN   int
	allocs   []allocRec
	refTerms []allocRec // ref-sorted terms that denote pre-existing objects, with creation seq
	inlined  map[string]bool
	abstracted map[string]bool
	assumed  map[string]bool
	inputs   []*Term // input symbols for model extraction
	errors   []string
	strIDs   map[string]int
	wfSeen     map[int]bool
	modelNames map[string]string // defined name -> readable term, for model output
	unroll     int             // >0: loops are unrolled this many times instead of cut (bounded fall-back)
	lastRes    map[string]Val  // result of the most recent call per callee (ghost lastBool)
	caseSub    map[*Term]*Term // case split in force while building a query
	caseAssert *Term
	instLevel  int // 0: no instances of quantified hypotheses, 1: goal terms only, 2: full
	blkMarks   []blkMark
	reach      map[*ssa.BasicBlock]map[*ssa.BasicBlock]bool
	opaque     map[*Term]*Term // opaque term -> exact definition
	atCallHits map[*AtCall]int
	variants   map[*loopInfo]*Term
}

type tokenPos = token.Pos

type blkMark struct {
	seq int
	blk *ssa.BasicBlock
}

// blockAt returns the top-level basic block that was being executed when sequence number seq was issued.
func (x *fnExec) blockAt(seq int) *ssa.BasicBlock {
	lo, hi := 0, len(x.blkMarks)-1
	var r *ssa.BasicBlock
	for lo <= hi {
		m := (lo + hi) / 2
		if x.blkMarks[m].seq <= seq {
			r = x.blkMarks[m].blk
			lo = m + 1
		} else {
			hi = m - 1
		}
	}
	return r
}

// canPrecede reports whether code of block a can execute before code of block b on some path of the loop-cut CFG.
func (x *fnExec) canPrecede(a, b *ssa.BasicBlock) bool {
	if a == nil || b == nil || a == b {
		return true
	}
	if x.reach == nil {
		x.reach = map[*ssa.BasicBlock]map[*ssa.BasicBlock]bool{}
	}
	m, ok := x.reach[a]
	if !ok {
		m = map[*ssa.BasicBlock]bool{}
		var dfs func(c *ssa.BasicBlock)
		dfs = func(c *ssa.BasicBlock) {
			for _, s := range c.Succs {
				if !m[s] && !isBackEdge(c, s) {
					m[s] = true
					dfs(s)
				}
			}
		}
		dfs(a)
		x.reach[a] = m
	}
	return m[b]
}

type deferred struct {
	instr *ssa.Defer
	cond  *Term
}

type frame struct {
	fn     *ssa.Function
	env    map[ssa.Value]Val
	entry  *State
	vars   map[types.Object]Val // parameters (entry values), named results filled at return
	inline bool
	safety bool
	depth  int
	C      *Contract
	defers []deferred
	loops  map[*ssa.BasicBlock]*loopInfo
	blockState map[*ssa.BasicBlock]*State // state at end of header pure prefix etc
}

type retEdge struct {
	cond *Term
	st   *State
	val  Val // tuple or single or zero Val{K:VTuple} for no result
	idx  int
	blk  *ssa.BasicBlock
}

type loopInfo struct {
	header  *ssa.BasicBlock
	body    map[*ssa.BasicBlock]bool
	latches []*ssa.BasicBlock
	ordinal int
	spec    *LoopSpec
	head    *State // heap state at the loop head of the iteration being executed (after havoc and invariants)
}

func (x *fnExec) note(format string, a ...any) {
	x.notes[fmt.Sprintf(format, a...)] = true
}

func (x *fnExec) next() int { x.seq++; return x.seq }

func (x *fnExec) assume(st *State, t *Term) {
	if t == True {
		return
	}
	x.facts = append(x.facts, Fact{x.next(), Implies(st.pc, t), false, ""})
}

func (x *fnExec) newEpoch(hint string) *epochExpr {
	x.epochN++
	return &epochExpr{leaf: fmt.Sprintf("%s%d", hint, x.epochN)}
}

func (x *fnExec) havocAll(st *State, why string) {
	st.heap = map[string]*Term{}
	st.epoch = x.newEpoch("h")
	x.note("whole-heap havoc: %s", why)
}

func (x *fnExec) obligation(st *State, name, kind, site string, tags []string, goal *Term, extraHyp *Term, src string) *Obl {
	o := &Obl{Name: name, Kind: kind, Site: site, Tags: tags, seq: x.next(), hyp: And(st.pc, orTrue(extraHyp)), goal: goal, Func: funcKey(x.top), Src: src}
	x.obls = append(x.obls, o)
	return o
}

func orTrue(t *Term) *Term {
	if t == nil {
		return True
	}
	return t
}

// ---------- loads and stores ----------

func (x *fnExec) loadLeaf(st *State, key string, s *Sort, ref, idx *Term) *Term {
	if ref == nil {
		panic("load through a pointer value without object identity (" + key + ")")
	}
	a := st.arr(key, s)
	v := Select(a, ref)
	if isIndexedPrefix(key) {
		if idx == nil {
			panic("indexed key without index: " + key)
		}
		v = Select(v, idx)
	}
	return v
}

func (x *fnExec) load(st *State, p Val, t types.Type) Val {
	if p.K != VPtr {
		panic(fmt.Sprintf("load through non-pointer value (kind %d)", p.K))
	}
	var ts []*Term
	for _, l := range leaves(t) {
		v := x.loadLeaf(st, p.Prefix+l.path, l.sort, p.Ref, p.Idx)
		ts = append(ts, v)
		if nn := x.P.nonNilKeys[p.Prefix+l.path]; nn != nil && l.path == "" && v.S.K == KBV {
			// field set once, to a non-nil value, by the constructor (obligation nonnil#Type)
			x.assumed["fields of "+nn.Type+" set only by its constructor are non-nil; justified by obligation nonnil#"+nn.Type] = true
			x.assume(st, Implies(Not(Eq(p.Ref, BVU(0, 64))), Not(Eq(v, BVU(0, v.S.W)))))
		}
	}
	v := unflatten(t, &ts)
	x.recordRefs(v)
	x.heapWF(st, v)
	if (strings.HasPrefix(p.Prefix, "G:Err") || strings.HasPrefix(p.Prefix, "G:err")) && v.K == VIface {
		// package-level error sentinels are initialised with errors.New and never reassigned
		x.assumed["package-level Err* sentinels are non-nil"] = true
		t := Not(Eq(v.Fs[0].T, BVU(0, 64)))
		if !x.wfSeen[t.id] && !containsBVar(t) {
			x.wfSeen[t.id] = true
			x.facts = append(x.facts, Fact{x.next(), t, true, ""})
		}
	}
	return v
}

// heapWF assumes the Go type invariants of values read from memory (slice headers are well formed).
func (x *fnExec) heapWF(st *State, v Val) {
	switch v.K {
	case VSlice:
		if v.base().Op != "lit" {
			t := sliceWF(v)
			if !x.wfSeen[t.id] && !containsBVar(t) {
				x.wfSeen[t.id] = true
				x.facts = append(x.facts, Fact{x.next(), t, true, ""})
			}
		}
	case VStruct, VTuple:
		for _, f := range v.Fs {
			x.heapWF(st, f)
		}
	}
}

func (x *fnExec) recordRefs(v Val) {
	switch v.K {
	case VPtr:
		if v.Ref.Op != "lit" {
			x.refTerms = append(x.refTerms, allocRec{v.Ref, x.seq})
		}
	case VSlice:
		if v.base().Op != "lit" {
			x.refTerms = append(x.refTerms, allocRec{v.base(), x.seq})
		}
	case VIface:
		x.refTerms = append(x.refTerms, allocRec{v.Fs[1].T, x.seq})
	case VStruct, VTuple:
		for _, f := range v.Fs {
			x.recordRefs(f)
		}
	case VScalar:
		if v.Ty != nil {
			switch v.Ty.Underlying().(type) {
			case *types.Map, *types.Chan:
				x.refTerms = append(x.refTerms, allocRec{v.T, x.seq})
			}
		}
	}
}

func (x *fnExec) store(st *State, p Val, t types.Type, v Val) {
	if p.K != VPtr {
		panic("store through non-pointer value")
	}
	ls := leaves(t)
	ts := flatten(v)
	if len(ls) != len(ts) {
		panic(fmt.Sprintf("store arity mismatch for %s: %d leaves vs %d terms", t, len(ls), len(ts)))
	}
	for i, l := range ls {
		key := p.Prefix + l.path
		a := st.arr(key, l.sort)
		if ts[i].S != l.sort {
			panic(fmt.Sprintf("store sort mismatch at %s: %s vs %s", key, ts[i].S, l.sort))
		}
		if isIndexedPrefix(key) {
			inner := Select(a, p.Ref)
			st.setArr(key, Store(a, p.Ref, Store(inner, p.Idx, ts[i])))
		} else {
			st.setArr(key, Store(a, p.Ref, ts[i]))
		}
	}
}

func (x *fnExec) freshRef(st *State, hint string) *Term {
	r := Fresh(hint, SRef)
	x.facts = append(x.facts, Fact{x.next(), And(Not(Eq(r, BVU(0, 64))), App("newobj", SBool, r)), false, ""})
	x.allocs = append(x.allocs, allocRec{r, x.seq})
	return r
}

// ---------- constants ----------

func (x *fnExec) strID(s string) *Term {
	if s == "" {
		return BVU(0, 64)
	}
	if x.strIDs == nil {
		x.strIDs = map[string]int{}
	}
	id, ok := x.P.typeTags["str:"+s]
	if !ok {
		id = len(x.P.typeTags) + 1000
		x.P.typeTags["str:"+s] = id
	}
	return BVU(uint64(id), 64)
}

func (x *fnExec) constVal(c constant.Value, t types.Type) Val {
	if c == nil {
		return zeroVal(t)
	}
	switch u := t.Underlying().(type) {
	case *types.Basic:
		switch {
		case u.Info()&types.IsBoolean != 0:
			return scalar(Bool(constant.BoolVal(c)), t)
		case u.Info()&types.IsInteger != 0:
			bi, ok := constant.Val(constant.ToInt(c)).(*big.Int)
			if !ok {
				i64, _ := constant.Int64Val(constant.ToInt(c))
				bi = big.NewInt(i64)
			}
			return scalar(BVLit(bi, sortOfBasic(u).W), t)
		case u.Info()&types.IsFloat != 0:
			f, _ := constant.Float64Val(c)
			if u.Kind() == types.Float32 {
				return scalar(Fresh("f32const", SFP32), t)
			}
			return scalar(FPLit(f), t)
		case u.Info()&types.IsString != 0:
			return scalar(x.strID(constant.StringVal(c)), t)
		}
	}
	return zeroVal(t)
}

// globalRef gives every package-level variable its own object identity (small literals, never nil).
func (x *fnExec) globalRef(name string) *Term {
	k := "global:" + name
	id, ok := x.P.typeTags[k]
	if !ok {
		id = len(x.P.typeTags) + 16
		x.P.typeTags[k] = id
	}
	r := BVU(uint64(id)+1<<20, 64)
	if !x.wfSeen[-id] {
		x.wfSeen[-id] = true
		x.facts = append(x.facts, Fact{x.next(), Not(App("newobj", SBool, r)), true, ""})
	}
	return r
}

func (x *fnExec) typeTag(t types.Type) *Term {
	k := "type:" + types.TypeString(t, nil)
	id, ok := x.P.typeTags[k]
	if !ok {
		id = len(x.P.typeTags) + 1
		x.P.typeTags[k] = id
		if x.P.tagTypes == nil {
			x.P.tagTypes = map[int]types.Type{}
		}
		x.P.tagTypes[id] = t
	}
	return BVU(uint64(id), 64)
}

// ---------- value lookup ----------

func (x *fnExec) val(fr *frame, v ssa.Value) Val {
	switch c := v.(type) {
	case *ssa.Const:
		return x.constVal(c.Value, c.Type())
	case *ssa.Global:
		return Val{K: VPtr, Prefix: "G:" + c.Name(), Ref: x.globalRef(c.Name()), Ty: c.Type()}
	case *ssa.Function:
		return scalar(x.strID("func:"+c.String()), c.Type())
	case *ssa.Builtin:
		return scalar(x.strID("builtin:"+c.Name()), c.Type())
	}
	if r, ok := fr.env[v]; ok {
		return r
	}
	// free variable of a closure or value not yet computed (should not happen in RPO)
	if fv, ok := v.(*ssa.FreeVar); ok {
		r := freshVal("freevar_"+fv.Name(), fv.Type())
		fr.env[v] = r
		return r
	}
	x.note("value %s (%T) used before definition in %s; treated as unknown", v.Name(), v, fr.fn.Name())
	r := freshVal("undef_"+v.Name(), v.Type())
	fr.env[v] = r
	return r
}

// ---------- CFG helpers ----------

func isBackEdge(from, to *ssa.BasicBlock) bool { return to.Dominates(from) }

func rpo(fn *ssa.Function) []*ssa.BasicBlock {
	seen := map[*ssa.BasicBlock]bool{}
	var order []*ssa.BasicBlock
	var dfs func(b *ssa.BasicBlock)
	dfs = func(b *ssa.BasicBlock) {
		seen[b] = true
		for _, s := range b.Succs {
			if !seen[s] && !isBackEdge(b, s) {
				dfs(s)
			}
		}
		order = append(order, b)
	}
	if len(fn.Blocks) > 0 {
		dfs(fn.Blocks[0])
		if fn.Recover != nil && !seen[fn.Recover] {
			// recover block is unreachable in normal flow; ignore
		}
	}
	for i, j := 0, len(order)-1; i < j; i, j = i+1, j-1 {
		order[i], order[j] = order[j], order[i]
	}
	return order
}

func findLoops(fn *ssa.Function) map[*ssa.BasicBlock]*loopInfo {
	loops := map[*ssa.BasicBlock]*loopInfo{}
	for _, b := range fn.Blocks {
		for _, s := range b.Succs {
			if isBackEdge(b, s) {
				li := loops[s]
				if li == nil {
					li = &loopInfo{header: s, body: map[*ssa.BasicBlock]bool{s: true}}
					loops[s] = li
				}
				li.latches = append(li.latches, b)
			}
		}
	}
	for _, li := range loops {
		var stack []*ssa.BasicBlock
		for _, l := range li.latches {
			if !li.body[l] {
				li.body[l] = true
				stack = append(stack, l)
			}
		}
		for len(stack) > 0 {
			b := stack[len(stack)-1]
			stack = stack[:len(stack)-1]
			for _, p := range b.Preds {
				if !li.body[p] {
					li.body[p] = true
					stack = append(stack, p)
				}
			}
		}
	}
	// ordinals by source position of the loop (position of first instruction with a position in header or its preds)
	var hs []*loopInfo
	for _, li := range loops {
		hs = append(hs, li)
	}
	// source ranges of the loop statements of this function: only positions inside a loop statement identify a loop
	// (phis and variables declared before the loops carry positions outside of them)
	var ranges [][2]token.Pos
	if syn := fn.Syntax(); syn != nil {
		ast.Inspect(syn, func(n ast.Node) bool {
			switch n.(type) {
			case *ast.ForStmt, *ast.RangeStmt:
				ranges = append(ranges, [2]token.Pos{n.Pos(), n.End()})
			}
			return true
		})
	}
	pos := map[*loopInfo]token.Pos{}
	for _, li := range hs {
		pos[li] = loopPos(li, ranges)
	}
	sort.Slice(hs, func(i, j int) bool {
		if pos[hs[i]] != pos[hs[j]] {
			return pos[hs[i]] < pos[hs[j]]
		}
		return hs[i].header.Index < hs[j].header.Index
	})
	for i, li := range hs {
		li.ordinal = i + 1
		if os.Getenv("SCTPVC_LOOPS") != "" && fn.Prog != nil {
			fmt.Fprintf(os.Stderr, "LOOP %s #%d header=block %d at %s\n", fn.Name(), i+1, li.header.Index, fn.Prog.Fset.Position(pos[li]))
		}
	}
	return loops
}

func loopPos(li *loopInfo, ranges [][2]token.Pos) token.Pos {
	best := token.Pos(1 << 40)
	for b := range li.body {
		for _, in := range b.Instrs {
			if _, isPhi := in.(*ssa.Phi); isPhi {
				continue
			}
			p := in.Pos()
			if !p.IsValid() || p >= best {
				continue
			}
			inLoop := len(ranges) == 0
			for _, r := range ranges {
				if r[0] <= p && p < r[1] {
					inLoop = true
				}
			}
			if inLoop {
				best = p
			}
		}
	}
	return best
}

// ---------- running a function ----------

type inEdge struct {
	from *ssa.BasicBlock
	cond *Term
	st   *State
	phis map[*ssa.Phi]Val // phi values fixed when the edge was taken (unrolled loops), nil otherwise
}

func (x *fnExec) newFrame(fn *ssa.Function, args []Val, st *State, depth int) *frame {
	fr := &frame{fn: fn, env: map[ssa.Value]Val{}, entry: st.clone(), vars: map[types.Object]Val{}, depth: depth}
	for i, p := range fn.Params {
		if i < len(args) {
			fr.env[p] = args[i]
			if o := p.Object(); o != nil {
				fr.vars[o] = args[i]
			}
		}
	}
	fr.loops = findLoops(fn)
	return fr
}

// runFunc symbolically executes fn from state st and returns the return edges.
func (x *fnExec) runFunc(fr *frame, st *State) []retEdge {
	fn := fr.fn
	if len(fn.Blocks) == 0 {
		return nil
	}
	if x.unroll > 0 && fr.depth == 0 && !fr.inline {
		return x.runFuncUnrolled(fr, st)
	}
	order := rpo(fn)
	in := map[*ssa.BasicBlock][]inEdge{}
	in[fn.Blocks[0]] = []inEdge{{from: nil, cond: st.pc, st: st}}
	var rets []retEdge
	route := func(from, to *ssa.BasicBlock, cond *Term, s *State) {
		x.edge(fr, in, from, to, cond, s, &rets)
	}
	for _, b := range order {
		edges := in[b]
		if len(edges) == 0 {
			continue // unreachable
		}
		if fr.depth == 0 && !fr.inline && len(edges) >= 2 && len(edges) <= 6 && fr.loops[b] == nil && onlyPhisAndReturn(b) {
			x.returnPerPath(fr, b, edges, &rets)
			continue
		}
		x.execBlock(fr, b, edges, route, &rets, true)
	}
	return rets
}

// returnPerPath executes a block that only returns once per incoming path: the postconditions are then checked path by
// path, without the nested choices a merged state would put into every term.
func (x *fnExec) returnPerPath(fr *frame, b *ssa.BasicBlock, edges []inEdge, rets *[]retEdge) {
	if fr.depth == 0 {
		x.blkMarks = append(x.blkMarks, blkMark{x.seq + 1, b})
	}
	for _, e := range edges {
		if e.cond == False {
			continue
		}
		cur := e.st.clone()
		cur.pc = e.cond
		idx := predIndex(b, e.from)
		var ret *ssa.Return
		for _, instr := range b.Instrs {
			switch t := instr.(type) {
			case *ssa.Phi:
				if e.phis != nil {
					if v, ok := e.phis[t]; ok {
						fr.env[t] = v
						continue
					}
				}
				fr.env[t] = x.val(fr, t.Edges[idx])
			case *ssa.Return:
				ret = t
			}
		}
		var rv Val
		if len(ret.Results) == 1 {
			rv = x.val(fr, ret.Results[0])
		} else {
			rv = Val{K: VTuple}
			for _, r := range ret.Results {
				rv.Fs = append(rv.Fs, x.val(fr, r))
			}
		}
		x.atReturn(fr, cur, ret, rv)
		*rets = append(*rets, retEdge{cur.pc, cur, rv, len(*rets), b})
	}
}

// execBlock merges the incoming edges of b, evaluates its phis and executes its instructions; control transfers are
// handed to route.
func (x *fnExec) execBlock(fr *frame, b *ssa.BasicBlock, edges []inEdge, route func(from, to *ssa.BasicBlock, cond *Term, s *State), rets *[]retEdge, cutLoops bool) {
	var conds []*Term
	var sts []*State
	for _, e := range edges {
		conds = append(conds, e.cond)
		sts = append(sts, e.st)
	}
	cur := mergeStates(conds, sts)
	if cur.pc == False {
		return
	}
	if fr.depth == 0 {
		x.blkMarks = append(x.blkMarks, blkMark{x.seq + 1, b})
	}
	// phis: all evaluated on the incoming values before any is assigned
	li := fr.loops[b]
	newPhis := map[*ssa.Phi]Val{}
	for _, instr := range b.Instrs {
		phi, ok := instr.(*ssa.Phi)
		if !ok {
			break
		}
		var v Val
		first := true
		for i := len(edges) - 1; i >= 0; i-- {
			e := edges[i]
			var ev Val
			if pv, have := e.phis[phi]; have {
				ev = pv
			} else {
				ev = x.val(fr, phi.Edges[predIndex(b, e.from)])
			}
			if first {
				v = ev
				first = false
			} else {
				v = iteVal(e.cond, ev, v)
			}
		}
		newPhis[phi] = v
	}
	for phi, v := range newPhis {
		fr.env[phi] = v
	}
	if li != nil && cutLoops {
		x.loopHeader(fr, li, cur, edges)
	}
	ended := false
	for _, instr := range b.Instrs {
		if _, ok := instr.(*ssa.Phi); ok {
			continue
		}
		switch t := instr.(type) {
		case *ssa.If:
			c := x.val(fr, t.Cond).T
			route(b, b.Succs[0], And(cur.pc, c), cur)
			route(b, b.Succs[1], And(cur.pc, Not(c)), cur)
			ended = true
		case *ssa.Jump:
			route(b, b.Succs[0], cur.pc, cur)
			ended = true
		case *ssa.Return:
			var rv Val
			if len(t.Results) == 1 {
				rv = x.val(fr, t.Results[0])
			} else {
				rv = Val{K: VTuple}
				for _, r := range t.Results {
					rv.Fs = append(rv.Fs, x.val(fr, r))
				}
			}
			x.atReturn(fr, cur, t, rv)
			*rets = append(*rets, retEdge{cur.pc, cur, rv, len(*rets), b})
			ended = true
		case *ssa.Panic:
			if fr.safety {
				x.obligation(cur, funcKey(x.top)+":safe#panic", "safe", "panic in "+funcKey(fr.fn)+" at "+x.P.Fset.Position(t.Pos()).String(), nil, False, nil, "")
			}
			ended = true
		default:
			x.instr(fr, cur, instr)
			if cur.pc == False {
				ended = true
			}
		}
		if ended {
			break
		}
	}
}

// runFuncUnrolled executes fn with every loop unrolled x.unroll times instead of cut by an invariant: paths that need
// more iterations are not explored, every explored path is exact. Used only as a fall-back for functions whose loop
// invariants can no longer be bound to the code; loops must not be nested.
func (x *fnExec) runFuncUnrolled(fr *frame, st *State) []retEdge {
	fn := fr.fn
	for h, li := range fr.loops {
		for b := range li.body {
			if b != h && fr.loops[b] != nil {
				panic("bounded fall-back: nested loops in " + funcKey(fn))
			}
		}
	}
	order := rpo(fn)
	in := map[*ssa.BasicBlock][]inEdge{}
	in[fn.Blocks[0]] = []inEdge{{from: nil, cond: st.pc, st: st}}
	var rets []retEdge
	done := map[*ssa.BasicBlock]bool{}
	plain := func(from, to *ssa.BasicBlock, cond *Term, s *State) {
		if cond == False {
			return
		}
		in[to] = append(in[to], inEdge{from: from, cond: cond, st: s.clone()})
	}
	for _, b := range order {
		if done[b] {
			continue
		}
		edges := in[b]
		if len(edges) == 0 {
			continue
		}
		li := fr.loops[b]
		if li == nil {
			if len(edges) >= 2 && len(edges) <= 8 && onlyPhisAndReturn(b) {
				x.returnPerPath(fr, b, edges, &rets)
			} else {
				x.execBlock(fr, b, edges, plain, &rets, false)
			}
			continue
		}
		// a loop: iterate its body, in reverse post-order, x.unroll+1 times
		var body []*ssa.BasicBlock
		for _, ob := range order {
			if li.body[ob] {
				body = append(body, ob)
				done[ob] = true
			}
		}
		var defined []ssa.Value
		for _, ob := range body {
			for _, instr := range ob.Instrs {
				if v, ok := instr.(ssa.Value); ok {
					defined = append(defined, v)
				}
			}
		}
		type exitEdge struct {
			to   *ssa.BasicBlock
			e    inEdge
			snap map[ssa.Value]Val
		}
		var exits []exitEdge
		iter := edges
		for k := 0; k <= x.unroll && len(iter) > 0; k++ {
			lin := map[*ssa.BasicBlock][]inEdge{b: iter}
			var next []inEdge
			route := func(from, to *ssa.BasicBlock, cond *Term, s *State) {
				if cond == False {
					return
				}
				switch {
				case to == b:
					// back edge: the header phis of the next iteration take the values this iteration computed
					ph := map[*ssa.Phi]Val{}
					idx := predIndex(b, from)
					for _, instr := range b.Instrs {
						if phi, ok := instr.(*ssa.Phi); ok {
							ph[phi] = x.val(fr, phi.Edges[idx])
						} else {
							break
						}
					}
					next = append(next, inEdge{from: from, cond: cond, st: s.clone(), phis: ph})
				case !li.body[to]:
					snap := map[ssa.Value]Val{}
					for _, v := range defined {
						if val, ok := fr.env[v]; ok {
							snap[v] = val
						}
					}
					// phis of the exit target read their operands on this edge now
					ph := map[*ssa.Phi]Val{}
					idx := predIndex(to, from)
					for _, instr := range to.Instrs {
						if phi, ok := instr.(*ssa.Phi); ok {
							ph[phi] = x.val(fr, phi.Edges[idx])
						} else {
							break
						}
					}
					exits = append(exits, exitEdge{to, inEdge{from: from, cond: cond, st: s.clone(), phis: ph}, snap})
				default:
					lin[to] = append(lin[to], inEdge{from: from, cond: cond, st: s.clone()})
				}
			}
			for _, ob := range body {
				if es := lin[ob]; len(es) > 0 {
					x.execBlock(fr, ob, es, route, &rets, false)
				}
			}
			iter = next
		}
		// values defined in the loop, as seen after it: chosen by the exit that was taken
		for _, v := range defined {
			var mv Val
			have := false
			for i := len(exits) - 1; i >= 0; i-- {
				sv, ok := exits[i].snap[v]
				if !ok {
					continue
				}
				if !have {
					mv, have = sv, true
				} else {
					mv = iteVal(exits[i].e.cond, sv, mv)
				}
			}
			if have {
				fr.env[v] = mv
			}
		}
		for _, ex := range exits {
			in[ex.to] = append(in[ex.to], ex.e)
		}
	}
	return rets
}

func onlyPhisAndReturn(b *ssa.BasicBlock) bool {
	for i, instr := range b.Instrs {
		switch instr.(type) {
		case *ssa.Phi, *ssa.DebugRef:
		case *ssa.Return:
			return i == len(b.Instrs)-1
		default:
			return false
		}
	}
	return false
}

func predIndex(b, from *ssa.BasicBlock) int {
	for i, p := range b.Preds {
		if p == from {
			return i
		}
	}
	return 0
}

func (x *fnExec) edge(fr *frame, in map[*ssa.BasicBlock][]inEdge, from, to *ssa.BasicBlock, cond *Term, st *State, rets *[]retEdge) {
	if cond == False {
		return
	}
	if isBackEdge(from, to) {
		li := fr.loops[to]
		x.loopBackEdge(fr, li, from, cond, st)
		return
	}
	in[to] = append(in[to], inEdge{from: from, cond: cond, st: st.clone()})
}

// ---------- instructions ----------

func (x *fnExec) instr(fr *frame, st *State, instr ssa.Instruction) {
	defer func() {
		if r := recover(); r != nil {
			msg := fmt.Sprint(r)
			if strings.HasPrefix(msg, "runtime error") {
				panic(r)
			}
			// unsupported construct: over-approximate
			x.note("unsupported in %s: %s (%s): %s", funcKey(fr.fn), instr.String(), x.P.Fset.Position(instr.Pos()), msg)
			if v, ok := instr.(ssa.Value); ok {
				fr.env[v] = freshVal("unsup_"+v.Name(), v.Type())
			}
			switch instr.(type) {
			case *ssa.Store, *ssa.MapUpdate, *ssa.Call, *ssa.Send, *ssa.Select, *ssa.RunDefers:
				x.havocAll(st, "unsupported side effect "+instr.String())
			}
		}
	}()
	switch t := instr.(type) {
	case *ssa.DebugRef:
	case *ssa.Alloc:
		x.alloc(fr, st, t)
	case *ssa.BinOp:
		fr.env[t] = x.binop(fr, st, t.Op, x.val(fr, t.X), x.val(fr, t.Y), t.X.Type(), t.Y.Type(), t.Type(), t)
		x.serialAudit(fr, st, t)
	case *ssa.UnOp:
		x.unop(fr, st, t)
	case *ssa.Call:
		x.call(fr, st, t, t)
	case *ssa.ChangeInterface:
		v := x.val(fr, t.X)
		v.Ty = t.Type()
		fr.env[t] = v
	case *ssa.ChangeType:
		v := x.val(fr, t.X)
		v.Ty = t.Type()
		fr.env[t] = retype(v, t.Type())
	case *ssa.Convert:
		fr.env[t] = x.convert(x.val(fr, t.X), t.X.Type(), t.Type())
	case *ssa.Defer:
		fr.defers = append(fr.defers, deferred{t, st.pc})
	case *ssa.Go:
		x.note("go statement in %s not modelled (sequential semantics)", funcKey(fr.fn))
	case *ssa.Extract:
		tv := x.val(fr, t.Tuple)
		fr.env[t] = tv.Fs[t.Index]
	case *ssa.Field:
		sv := x.val(fr, t.X)
		fr.env[t] = sv.Fs[t.Field]
	case *ssa.FieldAddr:
		p := x.val(fr, t.X)
		x.nilCheck(fr, st, p, t)
		st0 := t.X.Type().Underlying().(*types.Pointer).Elem().Underlying().(*types.Struct)
		f := st0.Field(t.Field)
		fr.env[t] = Val{K: VPtr, Prefix: p.Prefix + "." + f.Name(), Ref: p.Ref, Idx: p.Idx, Ty: t.Type()}
	case *ssa.IndexAddr:
		x.indexAddr(fr, st, t)
	case *ssa.Index:
		x.index(fr, st, t)
	case *ssa.Lookup:
		x.lookup(fr, st, t)
	case *ssa.MakeChan:
		fr.env[t] = scalar(x.freshRef(st, "chan"), t.Type())
	case *ssa.MakeClosure:
		fr.env[t] = scalar(x.freshRef(st, "closure"), t.Type())
	case *ssa.MakeInterface:
		fr.env[t] = x.makeInterface(st, x.val(fr, t.X), t.X.Type(), t.Type())
	case *ssa.MakeMap:
		r := x.freshRef(st, "map")
		mt := t.Type().Underlying().(*types.Map)
		x.mapInit(st, mt, r)
		fr.env[t] = scalar(r, t.Type())
	case *ssa.MakeSlice:
		x.makeSlice(fr, st, t)
	case *ssa.MapUpdate:
		x.mapUpdate(fr, st, t)
	case *ssa.Range:
		fr.env[t] = x.val(fr, t.X) // iterator = the collection
		if mt, isMap := t.X.Type().Underlying().(*types.Map); isMap {
			if ks, sok := mapKeySort(mt); sok {
				// ghost: the set of keys already produced by this iteration starts empty
				key := "X:visited:" + typeName(mt)
				a := x.mapArr(st, key, ks, SBool)
				st.setArr(key, Store(a, x.val(fr, t.X).T, ConstArr(Arr(ks, SBool), False)))
			}
		}
	case *ssa.Next:
		x.rangeNext(fr, st, t)
	case *ssa.RunDefers:
		for i := len(fr.defers) - 1; i >= 0; i-- {
			d := fr.defers[i]
			// the deferred call runs only on paths that registered it
			reg := And(st.pc, d.cond)
			if reg == False {
				continue
			}
			skip := And(st.pc, Not(d.cond))
			run := st.clone()
			run.pc = reg
			x.call(fr, run, d.instr, nil)
			if skip == False {
				st.pc, st.heap, st.epoch = run.pc, run.heap, run.epoch
				continue
			}
			keep := st.clone()
			m := mergeStates([]*Term{run.pc, skip}, []*State{run, keep})
			st.pc, st.heap, st.epoch = m.pc, m.heap, m.epoch
		}
	case *ssa.Select:
		x.note("select in %s: received values unknown; only the ghost send counter is modelled (sequential semantics)", funcKey(fr.fn))
		for _, s := range t.States {
			if s.Dir == types.SendOnly {
				x.countSend(st, x.val(fr, s.Chan).T)
			} else {
				// a receive case is an attempt to receive on that channel
				cv := x.val(fr, s.Chan).T
				ra := st.arr("X:recvs", BV(64))
				st.setArr("X:recvs", Store(ra, cv, BVBin("bvadd", Select(ra, cv), BVU(1, 64))))
			}
		}
		sv := freshVal("select", t.Type())
		if t.Blocking && sv.K == VTuple && len(sv.Fs) > 0 && sv.Fs[0].T != nil && sv.Fs[0].T.S.K == KBV {
			// a blocking select returns the index of the case that fired: one of its cases
			w := sv.Fs[0].T.S.W
			x.assume(st, And(BVCmp("bvsge", sv.Fs[0].T, BVU(0, w)), BVCmp("bvslt", sv.Fs[0].T, BVU(uint64(len(t.States)), w))))
		}
		fr.env[t] = sv
	case *ssa.Send:
		x.countSend(st, x.val(fr, t.Chan).T)
	case *ssa.Slice:
		x.sliceOp(fr, st, t)
	case *ssa.Store:
		p := x.val(fr, t.Addr)
		x.nilCheck(fr, st, p, t)
		v := x.val(fr, t.Val)
		x.atStore(fr, st, t, p, v)
		x.store(st, p, t.Addr.Type().Underlying().(*types.Pointer).Elem(), v)
	case *ssa.TypeAssert:
		x.typeAssert(fr, st, t)
	case *ssa.MultiConvert, *ssa.SliceToArrayPointer:
		fr.env[t.(ssa.Value)] = freshVal("conv", t.(ssa.Value).Type())
	default:
		panic(fmt.Sprintf("instruction %T", instr))
	}
}

func retype(v Val, t types.Type) Val {
	v.Ty = t
	return v
}

func (x *fnExec) safetyName(kind string) string { return funcKey(x.top) + ":safe#" + kind }

func (x *fnExec) nilCheck(fr *frame, st *State, p Val, at ssa.Instruction) {
	if !fr.safety || p.K != VPtr || p.Idx != nil {
		return
	}
	if strings.HasPrefix(p.Prefix, "G:") {
		return
	}
	goal := Not(Eq(p.Ref, BVU(0, 64)))
	if goal == True {
		return
	}
	x.obligation(st, x.safetyName("nil"), "safe", "nil dereference at "+x.P.Fset.Position(at.Pos()).String()+" in "+funcKey(fr.fn), nil, goal, nil, "")
	x.assume(st, goal)
}

func (x *fnExec) alloc(fr *frame, st *State, t *ssa.Alloc) {
	elem := t.Type().Underlying().(*types.Pointer).Elem()
	r := x.freshRef(st, "new_"+t.Comment)
	p := Val{K: VPtr, Prefix: canonPrefix(elem), Ref: r, Ty: t.Type()}
	x.zeroInit(st, p, elem)
	fr.env[t] = p
}

func (x *fnExec) zeroInit(st *State, p Val, elem types.Type) {
	if arr, ok := elem.Underlying().(*types.Array); ok {
		for _, l := range leaves(arr.Elem()) {
			key := "E:" + typeName(arr.Elem()) + l.path
			a := st.arr(key, l.sort)
			st.setArr(key, Store(a, p.Ref, ConstArr(Arr(BV(64), l.sort), zeroTerm(l.sort))))
		}
		return
	}
	x.store(st, p, elem, zeroVal(elem))
}

func (x *fnExec) binop(fr *frame, st *State, op token.Token, a, b Val, ta, tb, tr types.Type, at ssa.Instruction) Val {
	switch op {
	case token.EQL, token.NEQ:
		e := x.valEq(a, b)
		if op == token.NEQ {
			e = Not(e)
		}
		return scalar(e, tr)
	}
	if a.K != VScalar || b.K != VScalar {
		panic("binop on non-scalar")
	}
	x1, y1 := a.T, b.T
	if x1.S == SBool {
		switch op {
		case token.AND, token.LAND:
			return scalar(And(x1, y1), tr)
		case token.OR, token.LOR:
			return scalar(Or(x1, y1), tr)
		}
	}
	if isString(ta) {
		switch op {
		case token.ADD:
			return scalar(App("strcat", BV(64), x1, y1), tr)
		default:
			return scalar(Fresh("strcmp", SBool), tr)
		}
	}
	if x1.S.K == KFP {
		switch op {
		case token.ADD:
			return scalar(FPBin("fp.add", x1, y1), tr)
		case token.SUB:
			return scalar(FPBin("fp.sub", x1, y1), tr)
		case token.MUL:
			return scalar(FPBin("fp.mul", x1, y1), tr)
		case token.QUO:
			return scalar(FPBin("fp.div", x1, y1), tr)
		case token.LSS:
			return scalar(FPCmp("fp.lt", x1, y1), tr)
		case token.LEQ:
			return scalar(FPCmp("fp.leq", x1, y1), tr)
		case token.GTR:
			return scalar(FPCmp("fp.gt", x1, y1), tr)
		case token.GEQ:
			return scalar(FPCmp("fp.geq", x1, y1), tr)
		}
		panic("float op " + op.String())
	}
	signed := isSigned(ta)
	switch op {
	case token.ADD:
		return scalar(BVBin("bvadd", x1, y1), tr)
	case token.SUB:
		return scalar(BVBin("bvsub", x1, y1), tr)
	case token.MUL:
		return scalar(BVBin("bvmul", x1, y1), tr)
	case token.QUO, token.REM:
		if fr != nil && fr.safety {
			g := Not(Eq(y1, BVU(0, y1.S.W)))
			if g != True {
				x.obligation(st, x.safetyName("div"), "safe", "division by zero at "+x.P.Fset.Position(at.Pos()).String()+" in "+funcKey(fr.fn), nil, g, nil, "")
				x.assume(st, g)
			}
		}
		var o string
		switch {
		case op == token.QUO && signed:
			o = "bvsdiv"
		case op == token.QUO:
			o = "bvudiv"
		case signed:
			o = "bvsrem"
		default:
			o = "bvurem"
		}
		if op == token.REM && y1.Op != "lit" && x != nil {
			return scalar(x.opaqueRem(o, x1, y1), tr)
		}
		return scalar(BVBin(o, x1, y1), tr)
	case token.AND:
		return scalar(BVBin("bvand", x1, y1), tr)
	case token.OR:
		return scalar(BVBin("bvor", x1, y1), tr)
	case token.XOR:
		return scalar(BVBin("bvxor", x1, y1), tr)
	case token.AND_NOT:
		return scalar(BVBin("bvand", x1, BVNot(y1)), tr)
	case token.SHL, token.SHR:
		return scalar(shiftOp(op, x1, y1, signed), tr)
	case token.LSS, token.LEQ, token.GTR, token.GEQ:
		var o string
		switch op {
		case token.LSS:
			o = "lt"
		case token.LEQ:
			o = "le"
		case token.GTR:
			o = "gt"
		case token.GEQ:
			o = "ge"
		}
		if signed {
			o = "bvs" + o
		} else {
			o = "bvu" + o
		}
		return scalar(BVCmp(o, x1, y1), tr)
	}
	panic("binop " + op.String())
}

// countSend increments the ghost counter of send attempts on a channel (used to state "the write loop was woken").
func (x *fnExec) countSend(st *State, ch *Term) {
	a := st.arr("X:sends", BV(64))
	st.setArr("X:sends", Store(a, ch, BVBin("bvadd", Select(a, ch), BVU(1, 64))))
}

// opaqueRem keeps x % y with a symbolic divisor opaque: an uninterpreted term with lemma facts (range, identity below the
// divisor, power-of-two mask form). The exact definition is kept aside and asserted only in the exact retry of a query.
// The lemmas are theorems of bit-vector arithmetic; `sctpvc selftest` proves them with the solvers.
func (x *fnExec) opaqueRem(op string, a, b *Term) *Term {
	w := a.S.W
	r := App(fmt.Sprintf("%s_%d", op, w), a.S, a, b)
	_ = w
	return r
}

func remLemmas(op string, a, b, r *Term) []*Term {
	w := a.S.W
	zero, one := BVU(0, w), BVU(1, w)
	var nonneg, pos, lt func(p, q *Term) *Term
	if op == "bvsrem" {
		nonneg = func(p, _ *Term) *Term { return BVCmp("bvsge", p, zero) }
		pos = func(p, _ *Term) *Term { return BVCmp("bvsgt", p, zero) }
		lt = func(p, q *Term) *Term { return BVCmp("bvslt", p, q) }
	} else {
		nonneg = func(p, _ *Term) *Term { return True }
		pos = func(p, _ *Term) *Term { return Not(Eq(p, zero)) }
		lt = func(p, q *Term) *Term { return BVCmp("bvult", p, q) }
	}
	pre := And(nonneg(a, nil), pos(b, nil))
	pow2 := Eq(BVBin("bvand", b, BVBin("bvsub", b, one)), zero)
	return []*Term{
		Implies(pre, And(nonneg(r, nil), lt(r, b))),
		Implies(And(pre, lt(a, b)), Eq(r, a)),
		Implies(And(pre, pow2), Eq(r, BVBin("bvand", a, BVBin("bvsub", b, one)))),
	}
}

// shiftOp implements Go shift semantics: counts >= width give 0 (or sign fill).
func shiftOp(op token.Token, xv, cnt *Term, signed bool) *Term {
	w := xv.S.W
	cw := cnt.S.W
	var c *Term
	var big *Term // condition: count >= w
	if cw > w {
		big = BVCmp("bvuge", cnt, BVU(uint64(w), cw))
		c = Extract(w-1, 0, cnt)
	} else {
		c = ZeroExt(cnt, w)
		big = False // SMT semantics already give 0 / sign fill for c >= w
	}
	var r *Term
	switch {
	case op == token.SHL:
		r = BVBin("bvshl", xv, c)
		return Ite(big, BVU(0, w), r)
	case signed:
		r = BVBin("bvashr", xv, c)
		return Ite(big, BVBin("bvashr", xv, BVU(uint64(w-1), w)), r)
	default:
		r = BVBin("bvlshr", xv, c)
		return Ite(big, BVU(0, w), r)
	}
}

func (x *fnExec) valEq(a, b Val) *Term {
	switch a.K {
	case VScalar:
		if b.K == VPtr {
			return Eq(a.T, b.Ref)
		}
		return Eq(a.T, b.T)
	case VPtr:
		if b.K == VScalar {
			return Eq(a.Ref, b.T)
		}
		e := Eq(a.Ref, b.Ref)
		if a.Idx != nil && b.Idx != nil {
			e = And(e, Eq(a.Idx, b.Idx))
		}
		return e
	case VSlice:
		// only comparison with nil is legal
		if b.K == VSlice && isZeroLit(b.base()) {
			return Eq(a.base(), BVU(0, 64))
		}
		if isZeroLit(a.base()) {
			return Eq(b.base(), BVU(0, 64))
		}
		return And(Eq(a.base(), b.base()), Eq(a.off(), b.off()), Eq(a.len(), b.len()))
	case VIface:
		if b.K == VIface {
			if isZeroLit(a.Fs[0].T) || isZeroLit(b.Fs[0].T) {
				// comparison with nil: the type tag decides
				return Eq(a.Fs[0].T, b.Fs[0].T)
			}
			return And(Eq(a.Fs[0].T, b.Fs[0].T), Eq(a.Fs[1].T, b.Fs[1].T))
		}
	case VStruct, VTuple:
		var cs []*Term
		for i := range a.Fs {
			cs = append(cs, x.valEq(a.Fs[i], b.Fs[i]))
		}
		return And(cs...)
	}
	panic("valEq on unsupported kinds")
}

func (x *fnExec) unop(fr *frame, st *State, t *ssa.UnOp) {
	v := x.val(fr, t.X)
	switch t.Op {
	case token.NOT:
		fr.env[t] = scalar(Not(v.T), t.Type())
	case token.SUB:
		if v.T.S.K == KFP {
			fr.env[t] = scalar(mk("fp.neg", v.T.S, v.T), t.Type())
		} else {
			fr.env[t] = scalar(BVNeg(v.T), t.Type())
		}
	case token.XOR:
		fr.env[t] = scalar(BVNot(v.T), t.Type())
	case token.MUL:
		x.nilCheck(fr, st, v, t)
		fr.env[t] = x.load(st, v, t.Type())
	case token.ARROW:
		x.note("channel receive in %s: value unknown", funcKey(fr.fn))
		// ghost: receive attempts per channel
		ra := st.arr("X:recvs", BV(64))
		st.setArr("X:recvs", Store(ra, v.T, BVBin("bvadd", Select(ra, v.T), BVU(1, 64))))
		fr.env[t] = freshVal("recv", t.Type())
	default:
		panic("unop " + t.Op.String())
	}
}

func (x *fnExec) convert(v Val, from, to types.Type) Val {
	fu, tu := from.Underlying(), to.Underlying()
	fb, fok := fu.(*types.Basic)
	tb, tok := tu.(*types.Basic)
	if fok && tok {
		switch {
		case fb.Info()&types.IsInteger != 0 && tb.Info()&types.IsInteger != 0:
			w := sortOfBasic(tb).W
			if isSigned(from) {
				return scalar(SignExt(v.T, w), to)
			}
			return scalar(ZeroExt(v.T, w), to)
		case fb.Info()&types.IsInteger != 0 && tb.Info()&types.IsFloat != 0:
			s := sortOfBasic(tb)
			if isSigned(from) {
				return scalar(mk("to_fp_s", s, v.T), to)
			}
			return scalar(mk("to_fp_u", s, v.T), to)
		case fb.Info()&types.IsFloat != 0 && tb.Info()&types.IsInteger != 0:
			s := sortOfBasic(tb)
			if isSigned(to) {
				return scalar(mk("fp.to_sbv", s, v.T), to)
			}
			return scalar(mk("fp.to_ubv", s, v.T), to)
		case fb.Info()&types.IsFloat != 0 && tb.Info()&types.IsFloat != 0:
			if sortOfBasic(fb) == sortOfBasic(tb) {
				return retype(v, to)
			}
			return scalar(mk("to_fp_f", sortOfBasic(tb), v.T), to)
		case fb.Info()&types.IsString != 0 && tb.Info()&types.IsString != 0:
			return retype(v, to)
		case fb.Info()&types.IsInteger != 0 && tb.Info()&types.IsString != 0:
			return scalar(App("int2str", BV(64), ZeroExt(v.T, 64)), to)
		case fb.Kind() == types.UnsafePointer || tb.Kind() == types.UnsafePointer:
			return freshVal("unsafe", to)
		}
	}
	// string <-> []byte etc.
	x.note("conversion %s -> %s treated as unknown value", from, to)
	return freshVal("conv", to)
}

func (x *fnExec) makeInterface(st *State, v Val, from, to types.Type) Val {
	tag := x.typeTag(from)
	var ref *Term
	switch v.K {
	case VPtr:
		ref = v.Ref
	case VScalar:
		if v.T.S.K == KBV {
			ref = App("box_"+typeName(from), SRef, v.T)
		}
	}
	if ref == nil {
		ts := flatten(v)
		ref = App("boxs_"+typeName(from), SRef, ts...)
	}
	return ifaceVal(tag, ref, to)
}

func (x *fnExec) typeAssert(fr *frame, st *State, t *ssa.TypeAssert) {
	v := x.val(fr, t.X)
	var ok *Term
	var res Val
	if _, isIface := t.AssertedType.Underlying().(*types.Interface); isIface {
		ok = Fresh("assert_ok", SBool)
		res = ifaceVal(v.Fs[0].T, v.Fs[1].T, t.AssertedType)
		// a nil interface never satisfies an assertion
		x.assume(st, Implies(Eq(v.Fs[0].T, BVU(0, 64)), Not(ok)))
	} else {
		ok = Eq(v.Fs[0].T, x.typeTag(t.AssertedType))
		switch u := t.AssertedType.Underlying().(type) {
		case *types.Pointer:
			res = Val{K: VPtr, Prefix: canonPrefix(u.Elem()), Ref: v.Fs[1].T, Ty: t.AssertedType}
		default:
			res = freshVal("unbox", t.AssertedType)
			if res.K == VScalar && res.T.S.K == KBV {
				// unbox is the inverse of box
				x.assume(st, Implies(ok, Eq(App("box_"+typeName(t.AssertedType), SRef, res.T), v.Fs[1].T)))
			}
		}
	}
	if t.CommaOk {
		zero := zeroVal(t.AssertedType)
		fr.env[t] = Val{K: VTuple, Ty: t.Type(), Fs: []Val{iteVal(ok, res, zero), scalar(ok, nil)}}
		return
	}
	if fr.safety {
		x.obligation(st, x.safetyName("typeassert"), "safe", "type assertion at "+x.P.Fset.Position(t.Pos()).String(), nil, ok, nil, "")
	}
	x.assume(st, ok)
	fr.env[t] = res
}

func (x *fnExec) indexAddr(fr *frame, st *State, t *ssa.IndexAddr) {
	xv := x.val(fr, t.X)
	iv := x.val(fr, t.Index)
	idx := iv.T
	if isSigned(t.Index.Type()) {
		idx = SignExt(idx, 64)
	} else {
		idx = ZeroExt(idx, 64)
	}
	switch u := t.X.Type().Underlying().(type) {
	case *types.Slice:
		if fr.safety {
			g := BVCmp("bvult", idx, xv.len())
			x.obligation(st, x.safetyName("index"), "safe", "index out of range at "+x.P.Fset.Position(t.Pos()).String()+" in "+funcKey(fr.fn), nil, g, nil, "")
			x.assume(st, g)
		}
		fr.env[t] = Val{K: VPtr, Prefix: "E:" + typeName(u.Elem()), Ref: xv.base(), Idx: BVBin("bvadd", xv.off(), idx), Ty: t.Type()}
	case *types.Pointer:
		arr := u.Elem().Underlying().(*types.Array)
		if fr.safety {
			g := BVCmp("bvult", idx, BVU(uint64(arr.Len()), 64))
			if g != True {
				x.obligation(st, x.safetyName("index"), "safe", "array index out of range at "+x.P.Fset.Position(t.Pos()).String(), nil, g, nil, "")
				x.assume(st, g)
			}
		}
		base := xv.Ref
		off := idx
		if xv.Idx != nil {
			off = BVBin("bvadd", xv.Idx, idx)
		}
		fr.env[t] = Val{K: VPtr, Prefix: "E:" + typeName(arr.Elem()), Ref: base, Idx: off, Ty: t.Type()}
	default:
		panic("IndexAddr on " + t.X.Type().String())
	}
}

func (x *fnExec) index(fr *frame, st *State, t *ssa.Index) {
	// array value or string indexing: unknown value (bounds obligation for strings omitted)
	fr.env[t] = freshVal("index", t.Type())
	x.note("by-value index %s in %s treated as unknown", t.String(), funcKey(fr.fn))
}

func (x *fnExec) makeSlice(fr *frame, st *State, t *ssa.MakeSlice) {
	ln := to64(x.val(fr, t.Len).T, isSigned(t.Len.Type()))
	cp := to64(x.val(fr, t.Cap).T, isSigned(t.Cap.Type()))
	if fr.safety {
		g := And(BVCmp("bvsge", ln, BVU(0, 64)), BVCmp("bvsle", ln, cp))
		if g != True {
			x.obligation(st, x.safetyName("makeslice"), "safe", "makeslice: len out of range at "+x.P.Fset.Position(t.Pos()).String(), nil, g, nil, "")
			x.assume(st, g)
		}
	}
	elem := t.Type().Underlying().(*types.Slice).Elem()
	base := x.freshRef(st, "mk")
	for _, l := range leaves(elem) {
		key := "E:" + typeName(elem) + l.path
		a := st.arr(key, l.sort)
		st.setArr(key, Store(a, base, ConstArr(Arr(BV(64), l.sort), zeroTerm(l.sort))))
	}
	fr.env[t] = sliceVal(base, BVU(0, 64), ln, cp, t.Type())
}

func (x *fnExec) sliceOp(fr *frame, st *State, t *ssa.Slice) {
	xv := x.val(fr, t.X)
	var base, off, ln, cp *Term
	isStr := false
	switch u := t.X.Type().Underlying().(type) {
	case *types.Slice:
		base, off, ln, cp = xv.base(), xv.off(), xv.len(), xv.cap()
	case *types.Pointer: // pointer to array
		arr := u.Elem().Underlying().(*types.Array)
		base, off = xv.Ref, BVU(0, 64)
		if xv.Idx != nil {
			off = xv.Idx
		}
		ln = BVU(uint64(arr.Len()), 64)
		cp = ln
	case *types.Basic:
		isStr = true
	}
	if isStr {
		fr.env[t] = freshVal("substr", t.Type())
		return
	}
	get := func(v ssa.Value, def *Term) *Term {
		if v == nil {
			return def
		}
		tv := x.val(fr, v).T
		if isSigned(v.Type()) {
			return SignExt(tv, 64)
		}
		return ZeroExt(tv, 64)
	}
	lo := get(t.Low, BVU(0, 64))
	hi := get(t.High, ln)
	mx := get(t.Max, cp)
	if fr.safety {
		// 0 <= lo <= hi <= max <= cap  (unsigned comparisons suffice given lo,hi < 2^63 by cap)
		g := And(BVCmp("bvule", lo, hi), BVCmp("bvule", hi, mx), BVCmp("bvule", mx, cp))
		if g != True {
			x.obligation(st, x.safetyName("slice"), "safe", "slice bounds out of range at "+x.P.Fset.Position(t.Pos()).String()+" in "+funcKey(fr.fn), nil, g, nil, "")
			x.assume(st, g)
		}
	}
	nb := base
	fr.env[t] = sliceVal(nb, BVBin("bvadd", off, lo), BVBin("bvsub", hi, lo), BVBin("bvsub", mx, lo), t.Type())
}

// ---------- maps ----------

func mapKeySort(mt *types.Map) (*Sort, bool) {
	ls := leaves(mt.Key())
	if len(ls) != 1 {
		return nil, false
	}
	return ls[0].sort, true
}

func mapPrefix(mt *types.Map) string { return "M:" + typeName(mt) }

func (x *fnExec) mapArr(st *State, key string, ks, vs *Sort) *Term {
	if t, ok := st.heap[key]; ok {
		return t
	}
	as := Arr(SRef, Arr(ks, vs))
	var build func(e *epochExpr) *Term
	build = func(e *epochExpr) *Term {
		if e.a == nil {
			return Sym(e.name(key), as)
		}
		return Ite(e.c, build(e.a), build(e.b))
	}
	t := build(st.epoch)
	st.heap[key] = t
	return t
}

func (x *fnExec) mapInit(st *State, mt *types.Map, r *Term) {
	ks, ok := mapKeySort(mt)
	if !ok {
		return
	}
	key := mapPrefix(mt) + "#dom"
	a := x.mapArr(st, key, ks, SBool)
	st.setArr(key, Store(a, r, ConstArr(Arr(ks, SBool), False)))
}

func keyTerm(v Val) *Term {
	switch v.K {
	case VScalar:
		return v.T
	case VPtr:
		return v.Ref
	}
	return nil
}

func (x *fnExec) mapGet(st *State, mt *types.Map, m *Term, k *Term) (Val, *Term) {
	ks, _ := mapKeySort(mt)
	dom := Select(Select(x.mapArr(st, mapPrefix(mt)+"#dom", ks, SBool), m), k)
	var ts []*Term
	for _, l := range leaves(mt.Elem()) {
		a := x.mapArr(st, mapPrefix(mt)+"#val"+l.path, ks, l.sort)
		ts = append(ts, Ite(dom, Select(Select(a, m), k), zeroTerm(l.sort)))
	}
	v := unflatten(mt.Elem(), &ts)
	x.recordRefs(v)
	return v, dom
}

func (x *fnExec) lookup(fr *frame, st *State, t *ssa.Lookup) {
	mt, ok := t.X.Type().Underlying().(*types.Map)
	if !ok {
		fr.env[t] = freshVal("strindex", t.Type())
		return
	}
	if _, ok := mapKeySort(mt); !ok {
		fr.env[t] = freshVal("lookup", t.Type())
		return
	}
	m := x.val(fr, t.X).T
	k := keyTerm(x.val(fr, t.Index))
	v, dom := x.mapGet(st, mt, m, k)
	if t.CommaOk {
		fr.env[t] = Val{K: VTuple, Ty: t.Type(), Fs: []Val{v, scalar(dom, nil)}}
	} else {
		fr.env[t] = v
	}
}

func (x *fnExec) mapSet(st *State, mt *types.Map, m, k *Term, v Val) {
	ks, _ := mapKeySort(mt)
	dk := mapPrefix(mt) + "#dom"
	a := x.mapArr(st, dk, ks, SBool)
	st.setArr(dk, Store(a, m, Store(Select(a, m), k, True)))
	ts := flatten(v)
	for i, l := range leaves(mt.Elem()) {
		vk := mapPrefix(mt) + "#val" + l.path
		va := x.mapArr(st, vk, ks, l.sort)
		st.setArr(vk, Store(va, m, Store(Select(va, m), k, ts[i])))
	}
}

func (x *fnExec) mapDelete(st *State, mt *types.Map, m, k *Term) {
	ks, _ := mapKeySort(mt)
	dk := mapPrefix(mt) + "#dom"
	a := x.mapArr(st, dk, ks, SBool)
	st.setArr(dk, Store(a, m, Store(Select(a, m), k, False)))
}

func (x *fnExec) mapUpdate(fr *frame, st *State, t *ssa.MapUpdate) {
	mt := t.Map.Type().Underlying().(*types.Map)
	if _, ok := mapKeySort(mt); !ok {
		x.note("map with composite key %s: update not tracked", mt)
		return
	}
	m := x.val(fr, t.Map).T
	x.atMapUpdate(fr, st, t)
	if fr.safety {
		g := Not(Eq(m, BVU(0, 64)))
		x.obligation(st, x.safetyName("nilmap"), "safe", "write to nil map at "+x.P.Fset.Position(t.Pos()).String(), nil, g, nil, "")
		x.assume(st, g)
	}
	x.mapSet(st, mt, m, keyTerm(x.val(fr, t.Key)), x.val(fr, t.Value))
}

// loopKeepsMap reports whether the loop around a map iteration step can add no entry to maps of that type.
func (x *fnExec) loopKeepsMap(fr *frame, nx *ssa.Next, mt *types.Map) bool {
	var li *loopInfo
	for _, l := range fr.loops {
		if l.body[nx.Block()] && (li == nil || len(l.body) < len(li.body)) {
			li = l
		}
	}
	if li == nil {
		return false
	}
	pre := mapPrefix(mt)
	for b := range li.body {
		for _, in := range b.Instrs {
			switch t := in.(type) {
			case *ssa.MapUpdate:
				if mapPrefix(t.Map.Type().Underlying().(*types.Map)) == pre {
					return false
				}
			case ssa.CallInstruction:
				if _, isGo := in.(*ssa.Go); isGo {
					continue
				}
				ce := &effectSet{keys: map[string]bool{}}
				x.callEffects(t, ce)
				if ce.top || ce.keys[pre] {
					return false
				}
			}
		}
	}
	return true
}

func (x *fnExec) rangeNext(fr *frame, st *State, t *ssa.Next) {
	rng := t.Iter.(*ssa.Range)
	ok := Fresh("next_ok", SBool)
	tup := t.Type().(*types.Tuple)
	kv := freshVal("next_k", tup.At(1).Type())
	vv := freshVal("next_v", tup.At(2).Type())
	if mt, isMap := rng.X.Type().Underlying().(*types.Map); isMap {
		if _, sok := mapKeySort(mt); sok {
			m := x.val(fr, rng.X).T
			k := keyTerm(kv)
			if k != nil {
				val, dom := x.mapGet(st, mt, m, k)
				x.assume(st, Implies(ok, dom))
				// ghost visited set: each key is produced once; when the iteration ends every key of a map that
				// received no new entries during the loop has been produced
				ks, _ := mapKeySort(mt)
				vkey := "X:visited:" + typeName(mt)
				va := x.mapArr(st, vkey, ks, SBool)
				row := Select(va, m)
				x.assume(st, Implies(ok, Not(Select(row, k))))
				if x.loopKeepsMap(fr, t, mt) {
					kk := BVar("vk", ks)
					_, domK := x.mapGet(st, mt, m, kk)
					x.qfacts = append(x.qfacts, &QFact{seq: x.next(), pc: And(st.pc, Not(ok)), vars: []*Term{kk},
						body: Implies(domK, Select(row, kk)), origin: "range/complete"})
				} else {
					x.note("map modified while ranging over it in %s: no completeness fact for the iteration", funcKey(fr.fn))
				}
				st.setArr(vkey, Store(va, m, Ite(ok, Store(row, k, True), row)))
				if _, isInv := tup.At(2).Type().(*types.Basic); !(isInv && tup.At(2).Type().(*types.Basic).Kind() == types.Invalid) {
					vv = val
				}
			}
		}
	}
	fr.env[t] = Val{K: VTuple, Ty: t.Type(), Fs: []Val{scalar(ok, nil), kv, vv}}
}
