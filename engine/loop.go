package main

// Loop cutting: invariants at headers, havoc of loop-modified state, back-edge obligations.

import (
	"fmt"
	"go/types"
	"math/big"
	"regexp"
	"sort"
	"strings"

	"golang.org/x/tools/go/ssa"
)

type loopRun struct {
	variant *Term // value of the decreases expression at the head of the iteration
}

// bindRangeIdx binds the ghost name rangeIdx (number of elements already processed by a range-over-slice loop).
func (x *fnExec) bindRangeIdx(vars map[types.Object]Val, cl *Clause, li *loopInfo, fr *frame) {
	for _, pv := range cl.litParams() {
		if pv == nil || pv.Name() != "rangeIdx" {
			continue
		}
		for _, p := range x.headerPhis(li) {
			if isRangeIndexPhi(p) {
				v := fr.env[p]
				vars[pv] = scalar(BVBin("bvadd", v.T, BVU(1, 64)), pv.Type())
				return
			}
		}
	}
}

func (x *fnExec) loopSpec(fr *frame, li *loopInfo) *LoopSpec {
	if fr.C == nil || fr.inline {
		return nil
	}
	return fr.C.Loops[li.ordinal]
}

// shadowFrame clones the frame with the header phis bound to the given values and the pure prefix of the header executed.
func (x *fnExec) shadowFrame(fr *frame, li *loopInfo, phiVals map[*ssa.Phi]Val, st *State) *frame {
	sf := &frame{fn: fr.fn, env: make(map[ssa.Value]Val, len(fr.env)+16), entry: fr.entry, vars: fr.vars, inline: fr.inline,
		safety: false, depth: fr.depth, C: fr.C, loops: fr.loops}
	for k, v := range fr.env {
		sf.env[k] = v
	}
	for p, v := range phiVals {
		sf.env[p] = v
	}
	tmp := st.clone()
	for _, in := range li.header.Instrs {
		switch t := in.(type) {
		case *ssa.Phi, *ssa.DebugRef:
			continue
		case *ssa.BinOp, *ssa.UnOp, *ssa.Convert, *ssa.ChangeType, *ssa.FieldAddr, *ssa.IndexAddr, *ssa.Field, *ssa.Extract, *ssa.Slice, *ssa.Lookup:
			if u, ok := t.(*ssa.UnOp); ok && u.Op.String() == "<-" {
				return sf
			}
			x.instr(sf, tmp, in)
			continue
		case *ssa.Call:
			if b, ok := t.Call.Value.(*ssa.Builtin); ok && (b.Name() == "len" || b.Name() == "cap") {
				x.instr(sf, tmp, in)
				continue
			}
			if f := t.Call.StaticCallee(); f != nil && (f.Pkg == x.P.SSA) && x.P.Contracts[funcKey(f)] == nil && len(x.P.effectsOf(f).keys) == 0 && !x.P.effectsOf(f).top && x.canAutoInline(sf, f) {
				x.instr(sf, tmp, in)
				continue
			}
		}
		break
	}
	return sf
}

// isRangeIndexPhi recognises the index phi go/ssa emits for "for i := range slice": phi [-1, phi+1].
func isRangeIndexPhi(p *ssa.Phi) bool {
	if p.Comment != "rangeindex" || len(p.Edges) < 2 {
		return false
	}
	c, ok := p.Edges[0].(*ssa.Const)
	if !ok || c.Value == nil || c.Value.ExactString() != "-1" {
		return false
	}
	for _, e := range p.Edges[1:] {
		b, ok := e.(*ssa.BinOp)
		if !ok || b.Op.String() != "+" || b.X != ssa.Value(p) {
			return false
		}
		one, ok := b.Y.(*ssa.Const)
		if !ok || one.Value == nil || one.Value.ExactString() != "1" {
			return false
		}
	}
	return true
}

func (x *fnExec) headerPhis(li *loopInfo) []*ssa.Phi {
	var out []*ssa.Phi
	for _, in := range li.header.Instrs {
		if p, ok := in.(*ssa.Phi); ok {
			out = append(out, p)
		} else {
			break
		}
	}
	return out
}

func (x *fnExec) loopHeader(fr *frame, li *loopInfo, cur *State, edges []inEdge) {
	if fr.inline {
		panic("loop inside inlined function " + funcKey(fr.fn))
	}
	spec := x.loopSpec(fr, li)
	name := func(cl *Clause) string {
		return fmt.Sprintf("%s:loop %d:inv#%s", funcKey(x.top), li.ordinal, cl.Label)
	}
	// 1. entry obligations (phis already hold merged entry values)
	if spec != nil {
		sf := x.shadowFrame(fr, li, nil, cur)
		for _, cl := range spec.Invariants {
			if cl.Info == nil {
				continue
			}
			env := &specEnv{x: x, vars: copyVars(fr.vars), cur: cur, old: fr.entry, info: cl.Info, fr: sf, loop: li}
			x.bindRangeIdx(env.vars, cl, li, sf)
			goal, hyp, sk := env.clauseGoal(cl)
			o := x.obligation(cur, name(cl), "inv", "loop entry", clauseTags(fr.C, cl), goal, hyp, cl.Src)
			o.skolems = sk
		}
	}
	if spec != nil && len(spec.AtEntry) > 0 {
		sf := x.shadowFrame(fr, li, nil, cur)
		for _, cl := range spec.AtEntry {
			if cl.Info == nil {
				continue
			}
			env := &specEnv{x: x, vars: copyVars(fr.vars), cur: cur, old: fr.entry, info: cl.Info, fr: sf, loop: li}
			x.bindRangeIdx(env.vars, cl, li, sf)
			goal, hyp, sk := env.clauseGoal(cl)
			o := x.obligation(cur, fmt.Sprintf("%s:loop %d:atentry#%s", funcKey(x.top), li.ordinal, cl.Label), "assert", "loop entry", clauseTags(fr.C, cl), goal, hyp, cl.Src)
			o.skolems = sk
		}
	}
	// 2. havoc what the loop modifies
	x.havocLoop(fr, li, cur)
	phiVals := map[*ssa.Phi]Val{}
	for _, p := range x.headerPhis(li) {
		unchanged := true
		for i, e := range p.Edges {
			if li.body[li.header.Preds[i]] && e != ssa.Value(p) {
				unchanged = false
			}
		}
		if unchanged {
			continue
		}
		v := freshVal("loop_"+p.Comment, p.Type())
		x.constrainFresh(cur, v)
		fr.env[p] = v
		phiVals[p] = v
		if isRangeIndexPhi(p) {
			// built-in invariant of the range-over-slice lowering: index starts at -1 and is incremented below len
			x.assume(cur, And(BVCmp("bvsge", v.T, BVI(-1, 64)), BVCmp("bvslt", v.T, BVU(1<<62, 64))))
		}
	}
	// 3. assume invariants
	if spec != nil {
		sf := x.shadowFrame(fr, li, nil, cur)
		for _, cl := range spec.Invariants {
			if cl.Info == nil {
				continue
			}
			env := &specEnv{x: x, vars: copyVars(fr.vars), cur: cur, old: fr.entry, info: cl.Info, fr: sf, loop: li}
			x.bindRangeIdx(env.vars, cl, li, sf)
			env.assumeClause(cl, cur)
		}
		if spec.Decreases != nil && spec.Decreases.Info != nil {
			env := &specEnv{x: x, vars: copyVars(fr.vars), cur: cur, old: fr.entry, info: spec.Decreases.Info, fr: sf, loop: li}
			v := env.expr(spec.Decreases.Expr)
			if x.variants == nil {
				x.variants = map[*loopInfo]*Term{}
			}
			x.variants[li] = v.T
		}
	}
	li.head = cur.clone()
}

func (x *fnExec) loopBackEdge(fr *frame, li *loopInfo, from *ssa.BasicBlock, cond *Term, st *State) {
	_ = li.head
	spec := x.loopSpec(fr, li)
	if spec == nil {
		return
	}
	s2 := st.clone()
	s2.pc = cond
	phiVals := map[*ssa.Phi]Val{}
	idx := predIndex(li.header, from)
	for _, p := range x.headerPhis(li) {
		phiVals[p] = x.val(fr, p.Edges[idx])
	}
	sf := x.shadowFrame(fr, li, phiVals, s2)
	for _, cl := range spec.Invariants {
		if cl.Info == nil {
			continue
		}
		env := &specEnv{x: x, vars: copyVars(fr.vars), cur: s2, old: fr.entry, info: cl.Info, fr: sf, loop: li}
		x.bindRangeIdx(env.vars, cl, li, sf)
		goal, hyp, sk := env.clauseGoal(cl)
		o := x.obligation(s2, fmt.Sprintf("%s:loop %d:inv#%s", funcKey(x.top), li.ordinal, cl.Label), "inv", "back edge from block "+fmt.Sprint(from.Index), clauseTags(fr.C, cl), goal, hyp, cl.Src)
		o.skolems = sk
	}
	for _, cl := range spec.AtEnd {
		if cl.Info == nil {
			continue
		}
		// end of an iteration: the body's variables are resolved at the latch, not at the header
		var term ssa.Instruction
		if n := len(from.Instrs); n > 0 {
			term = from.Instrs[n-1]
		}
		env := &specEnv{x: x, vars: copyVars(fr.vars), cur: s2, old: fr.entry, info: cl.Info, fr: fr, at: term, iter: li}
		goal, hyp, sk := env.clauseGoal(cl)
		o := x.obligation(s2, fmt.Sprintf("%s:loop %d:atend#%s", funcKey(x.top), li.ordinal, cl.Label), "assert", "end of iteration (back edge from block "+fmt.Sprint(from.Index)+")", clauseTags(fr.C, cl), goal, hyp, cl.Src)
		o.skolems = sk
	}
	if spec.Decreases != nil && spec.Decreases.Info != nil {
		env := &specEnv{x: x, vars: copyVars(fr.vars), cur: s2, old: fr.entry, info: spec.Decreases.Info, fr: sf, loop: li}
		nv := env.expr(spec.Decreases.Expr).T
		ov := x.variants[li]
		goal := And(BVCmp("bvsge", ov, BVU(0, 64)), BVCmp("bvslt", nv, ov))
		x.obligation(s2, fmt.Sprintf("%s:loop %d:decreases", funcKey(x.top), li.ordinal), "decreases", "back edge from block "+fmt.Sprint(from.Index), clauseTags(fr.C, spec.Decreases), goal, nil, spec.Decreases.Src)
	}
}

// havocLoop replaces every heap location the loop body may write by unknown contents.
func (x *fnExec) havocLoop(fr *frame, li *loopInfo, st *State) {
	eff := &effectSet{keys: map[string]bool{}}
	type preciseStore struct {
		addr ssa.Value
		ty   types.Type
	}
	var stores []*ssa.Store
	callKeys := map[string]bool{}
	extWrites := map[string][]*Term{}
	extSorts := map[string]*Sort{}
	for b := range li.body {
		for _, in := range b.Instrs {
			switch t := in.(type) {
			case *ssa.Store:
				if rootIsLocalAllocOutside(t.Addr, li) {
					// local cell allocated inside the loop body: fresh each iteration, no carried state
					continue
				}
				stores = append(stores, t)
			case *ssa.MapUpdate:
				eff.keys[mapPrefix(t.Map.Type().Underlying().(*types.Map))] = true
			case *ssa.Next:
				if rg, ok := t.Iter.(*ssa.Range); ok {
					if mt, isMap := rg.X.Type().Underlying().(*types.Map); isMap {
						eff.keys["X:visited:"+typeName(mt)] = true
					}
				}
			case ssa.CallInstruction:
				if _, isGo := in.(*ssa.Go); isGo {
					continue
				}
				if x.C != nil && x.C.Interference && !fr.inline {
					if sc := t.Common().StaticCallee(); sc != nil && (sc.Name() == "Lock" || sc.Name() == "RLock") &&
						(strings.HasPrefix(sc.String(), "(*sync.Mutex).") || strings.HasPrefix(sc.String(), "(*sync.RWMutex).")) {
						// a lock (re-)acquired inside the loop: other goroutines may have changed anything
						eff.top = true
					}
				}
				if dst, elem, ok := byteWriterDest(t); ok {
					// binary.PutUintNN / copy into a slice whose backing array does not change in the loop:
					// only that row of the element array is written
					if base, good := x.invariantSliceBase(fr, li, dst); good {
						for _, l := range leaves(elem) {
							k := "E:" + typeName(elem) + l.path
							extWrites[k] = append(extWrites[k], base)
							extSorts[k] = l.sort
						}
						continue
					}
				}
				ce := &effectSet{keys: map[string]bool{}}
				x.callEffects(t, ce)
				if ce.top {
					eff.top = true
				}
				for k := range ce.keys {
					eff.keys[k] = true
					callKeys[k] = true
				}
			}
		}
	}
	if eff.top {
		x.havocAll(st, fmt.Sprintf("loop %d of %s contains a call with unknown effects", li.ordinal, funcKey(fr.fn)))
		return
	}
	// keys written by stores
	storeKeys := map[string][]*ssa.Store{}
	for _, s := range stores {
		pt := s.Addr.Type().Underlying().(*types.Pointer).Elem()
		pre := staticAddrPrefix(s.Addr)
		for _, l := range leaves(pt) {
			storeKeys[pre+l.path] = append(storeKeys[pre+l.path], s)
		}
	}
	modified := map[string]bool{}
	for k := range eff.keys {
		modified[k] = true
	}
	for k := range storeKeys {
		modified[k] = true
	}
	isModified := func(key string) bool {
		if modified[key] {
			return true
		}
		for k := range eff.keys {
			if strings.HasPrefix(k, "M:") && strings.HasPrefix(key, k+"#") {
				return true
			}
		}
		return false
	}
	exact := map[string]bool{}
	var prefixes []string
	for k := range eff.keys {
		if strings.HasPrefix(k, "M:") {
			prefixes = append(prefixes, k+"#")
		} else if k == "E:*" {
			prefixes = append(prefixes, "E:")
		} else {
			exact[k] = true
		}
	}
	// try precise havoc for store-only keys
	type loc struct {
		ref, idxBase *Term
	}
	pre := st.clone()
	for k, ss := range storeKeys {
		if callKeys[k] {
			exact[k] = true
			continue
		}
		var refs []*Term
		ok := true
		for _, s := range ss {
			r, good := x.invariantRef(fr, li, s.Addr, pre, isModified)
			if !good {
				ok = false
				break
			}
			refs = append(refs, r)
		}
		if !ok {
			exact[k] = true
			continue
		}
		// precise: only rows/cells at refs change
		var srt *Sort
		// find leaf sort
		s0 := ss[0]
		pt := s0.Addr.Type().Underlying().(*types.Pointer).Elem()
		pfx := staticAddrPrefix(s0.Addr)
		for _, l := range leaves(pt) {
			if pfx+l.path == k {
				srt = l.sort
			}
		}
		a := st.arr(k, srt)
		for _, r := range refs {
			a = Store(a, r, Fresh("loophv", a.S.Elem))
		}
		st.setArr(k, a)
	}
	for k, bases := range extWrites {
		if exact[k] {
			continue
		}
		a := st.arr(k, extSorts[k])
		for _, b := range bases {
			a = Store(a, b, Fresh("loophv", a.S.Elem))
		}
		st.setArr(k, a)
	}
	if len(exact) > 0 || len(prefixes) > 0 {
		x.havocKeys(st, exact, prefixes)
	}
}

// byteWriterDest recognises calls that only write the elements of one destination slice.
func byteWriterDest(ci ssa.CallInstruction) (ssa.Value, types.Type, bool) {
	cc := ci.Common()
	if b, ok := cc.Value.(*ssa.Builtin); ok && b.Name() == "copy" {
		if sl, ok := cc.Args[0].Type().Underlying().(*types.Slice); ok {
			return cc.Args[0], sl.Elem(), true
		}
		return nil, nil, false
	}
	if f := cc.StaticCallee(); f != nil && f.Pkg != nil && f.Pkg.Pkg.Path() == "encoding/binary" && strings.HasPrefix(f.Name(), "PutUint") && len(cc.Args) >= 2 {
		d := cc.Args[len(cc.Args)-2]
		if sl, ok := d.Type().Underlying().(*types.Slice); ok {
			return d, sl.Elem(), true
		}
	}
	return nil, nil, false
}

// invariantSliceBase returns the backing-array identity of a slice value if it cannot change during the loop.
func (x *fnExec) invariantSliceBase(fr *frame, li *loopInfo, v ssa.Value) (*Term, bool) {
	for {
		if s, ok := v.(*ssa.Slice); ok {
			if _, isSl := s.X.Type().Underlying().(*types.Slice); isSl {
				v = s.X
				continue
			}
		}
		break
	}
	if in, ok := v.(ssa.Instruction); ok && li.body[in.Block()] {
		return nil, false
	}
	r, ok := fr.env[v]
	if !ok || r.K != VSlice {
		return nil, false
	}
	return r.base(), true
}

func rootIsLocalAllocOutside(v ssa.Value, li *loopInfo) bool {
	for {
		switch t := v.(type) {
		case *ssa.FieldAddr:
			v = t.X
		case *ssa.IndexAddr:
			if _, ok := t.X.Type().Underlying().(*types.Pointer); ok {
				v = t.X
				continue
			}
			return false
		case *ssa.Alloc:
			return li.body[t.Block()]
		default:
			return false
		}
	}
}

// invariantRef computes, in the loop entry state, the object reference (row owner) an address inside the loop refers to,
// provided that reference cannot change during the loop.
func (x *fnExec) invariantRef(fr *frame, li *loopInfo, addr ssa.Value, pre *State, isModified func(string) bool) (*Term, bool) {
	switch t := addr.(type) {
	case *ssa.FieldAddr:
		return x.invariantRef(fr, li, t.X, pre, isModified)
	case *ssa.IndexAddr:
		switch t.X.Type().Underlying().(type) {
		case *types.Slice:
			// base of the slice value
			sv, ok := x.invariantVal(fr, li, t.X, pre, isModified)
			if !ok || sv.K != VSlice {
				return nil, false
			}
			return sv.base(), true
		case *types.Pointer:
			return x.invariantRef(fr, li, t.X, pre, isModified)
		}
		return nil, false
	default:
		v, ok := x.invariantVal(fr, li, addr, pre, isModified)
		if !ok || v.K != VPtr {
			return nil, false
		}
		return v.Ref, true
	}
}

// invariantVal evaluates an SSA value in the loop entry state if it is loop-invariant.
func (x *fnExec) invariantVal(fr *frame, li *loopInfo, v ssa.Value, pre *State, isModified func(string) bool) (Val, bool) {
	in, isInstr := v.(ssa.Instruction)
	if !isInstr || !li.body[in.Block()] {
		if _, isPhi := v.(*ssa.Phi); isPhi && isInstr && in.Block() == li.header {
			return Val{}, false
		}
		if _, ok := v.(*ssa.Const); ok {
			return x.val(fr, v), true
		}
		if r, ok := fr.env[v]; ok {
			return r, true
		}
		if _, ok := v.(*ssa.Parameter); ok {
			return x.val(fr, v), true
		}
		if _, ok := v.(*ssa.Global); ok {
			return x.val(fr, v), true
		}
		return Val{}, false
	}
	switch t := v.(type) {
	case *ssa.UnOp:
		if t.Op.String() != "*" {
			return Val{}, false
		}
		p, ok := x.invariantAddr(fr, li, t.X, pre, isModified)
		if !ok {
			return Val{}, false
		}
		for _, l := range leaves(t.Type()) {
			if isModified(p.Prefix + l.path) {
				return Val{}, false
			}
		}
		return x.load(pre, p, t.Type()), true
	case *ssa.FieldAddr, *ssa.IndexAddr:
		return x.invariantAddr(fr, li, v, pre, isModified)
	}
	return Val{}, false
}

func (x *fnExec) invariantAddr(fr *frame, li *loopInfo, v ssa.Value, pre *State, isModified func(string) bool) (Val, bool) {
	switch t := v.(type) {
	case *ssa.FieldAddr:
		p, ok := x.invariantAddr(fr, li, t.X, pre, isModified)
		if !ok {
			return Val{}, false
		}
		st0 := t.X.Type().Underlying().(*types.Pointer).Elem().Underlying().(*types.Struct)
		return Val{K: VPtr, Prefix: p.Prefix + "." + st0.Field(t.Field).Name(), Ref: p.Ref, Idx: p.Idx}, true
	case *ssa.IndexAddr:
		return Val{}, false
	}
	r, ok := x.invariantVal(fr, li, v, pre, isModified)
	if !ok || r.K != VPtr {
		return Val{}, false
	}
	return r, true
}

// callEffects computes the effect set of one call instruction.
func (x *fnExec) callEffects(ci ssa.CallInstruction, e *effectSet) {
	cc := ci.Common()
	if cc.IsInvoke() {
		x.P.invokeEffects(cc, e)
		return
	}
	switch f := cc.Value.(type) {
	case *ssa.Builtin:
		switch f.Name() {
		case "append", "copy":
			if sl, ok := cc.Args[0].Type().Underlying().(*types.Slice); ok {
				for _, l := range leaves(sl.Elem()) {
					e.keys["E:"+typeName(sl.Elem())+l.path] = true
				}
			}
		case "delete":
			e.keys[mapPrefix(cc.Args[0].Type().Underlying().(*types.Map))] = true
		case "clear":
			e.top = true
		}
	case *ssa.Function:
		e.add(x.P.effectsOf(f))
		x.P.externalWriteEffects(f, cc, e)
	case *ssa.MakeClosure:
		if cf, ok := f.Fn.(*ssa.Function); ok {
			e.add(x.P.effectsOf(cf))
		} else {
			e.top = true
		}
	default:
		e.top = true
	}
}

var seqNameRe = regexp.MustCompile(`(?i)(tsn|ssn|sequencenumber|messageidentifier|^mid$|fsn$|rsn$|^nextmid|ackpoint)`)

// isSeqTyped reports whether an SSA value denotes a protocol sequence number (by the names of the fields,
// parameters, locals and accessor methods it is derived from).
// curNames maps SSA values of the function being scanned to the source names bound to them (from DebugRefs).
var curNames map[ssa.Value][]string

func debugNames(f *ssa.Function) map[ssa.Value][]string {
	m := map[ssa.Value][]string{}
	for _, b := range f.Blocks {
		for _, in := range b.Instrs {
			if dr, ok := in.(*ssa.DebugRef); ok && !dr.IsAddr && dr.Object() != nil {
				if _, isVar := dr.Object().(*types.Var); isVar {
					m[dr.X] = append(m[dr.X], dr.Object().Name())
				}
			}
		}
	}
	return m
}

func isSeqTyped(v ssa.Value, depth int) bool {
	if depth > 6 {
		return false
	}
	for _, n := range curNames[v] {
		if seqNameRe.MatchString(n) {
			return true
		}
	}
	switch t := v.(type) {
	case *ssa.Parameter:
		return seqNameRe.MatchString(t.Name())
	case *ssa.UnOp:
		if t.Op.String() == "*" {
			if fa, ok := t.X.(*ssa.FieldAddr); ok {
				st := fa.X.Type().Underlying().(*types.Pointer).Elem().Underlying().(*types.Struct)
				return seqNameRe.MatchString(st.Field(fa.Field).Name())
			}
		}
		return false
	case *ssa.Field:
		st := t.X.Type().Underlying().(*types.Struct)
		return seqNameRe.MatchString(st.Field(t.Field).Name())
	case *ssa.BinOp:
		switch t.Op.String() {
		case "+", "-":
			_, cx := t.X.(*ssa.Const)
			_, cy := t.Y.(*ssa.Const)
			if cy {
				return isSeqTyped(t.X, depth+1)
			}
			if cx {
				return isSeqTyped(t.Y, depth+1)
			}
			return false
		}
		return false
	case *ssa.Phi:
		if seqNameRe.MatchString(t.Comment) {
			return true
		}
		for _, e := range t.Edges {
			if e != ssa.Value(t) && isSeqTyped(e, depth+1) {
				return true
			}
		}
		return false
	case *ssa.Convert:
		return isSeqTyped(t.X, depth+1)
	case *ssa.ChangeType:
		return isSeqTyped(t.X, depth+1)
	case *ssa.Call:
		if f := t.Call.StaticCallee(); f != nil {
			return seqNameRe.MatchString(f.Name())
		}
		return false
	case *ssa.Extract:
		if c, ok := t.Tuple.(*ssa.Call); ok {
			if f := c.Call.StaticCallee(); f != nil && t.Index == 0 {
				return seqNameRe.MatchString(f.Name())
			}
		}
		return false
	}
	return false
}

// serialAudit emits, for an ordering comparison between two sequence-number values in a function under
// "serialaudit", the obligation that the raw comparison agrees with RFC 1982 serial arithmetic.
func (x *fnExec) serialAudit(fr *frame, st *State, t *ssa.BinOp) {
	if fr.C == nil || fr.inline || len(fr.C.Serial) == 0 {
		return
	}
	var strictLT, swap, orEq bool
	switch t.Op.String() {
	case "<":
		strictLT = true
	case "<=":
		strictLT, orEq = true, true
	case ">":
		strictLT, swap = true, true
	case ">=":
		strictLT, swap, orEq = true, true, true
	default:
		return
	}
	_ = strictLT
	if _, c := t.X.(*ssa.Const); c {
		return
	}
	if _, c := t.Y.(*ssa.Const); c {
		return
	}
	b, ok := t.X.Type().Underlying().(*types.Basic)
	if !ok || (b.Kind() != types.Uint32 && b.Kind() != types.Uint16) {
		return
	}
	if !isSeqTyped(t.X, 0) || !isSeqTyped(t.Y, 0) {
		return
	}
	a, c := x.val(fr, t.X).T, x.val(fr, t.Y).T
	if swap {
		a, c = c, a
	}
	w := a.S.W
	d := BVBin("bvsub", c, a)
	half := BVLit(new(big.Int).Lsh(big.NewInt(1), uint(w-1)), w)
	ser := And(Not(Eq(d, BVU(0, w))), BVCmp("bvult", d, half)) // serial a < c
	if orEq {
		ser = Or(ser, Eq(a, c))
	}
	raw := fr.env[t].T
	x.obligation(st, fr.C.Key+":assert#serial-compare", "assert", "raw ordering of sequence numbers at "+x.P.Fset.Position(t.Pos()).String(), fr.C.Serial,
		Eq(raw, ser), nil, "ordering comparisons between sequence numbers follow serial-number arithmetic")
}

// snaUsers lists the functions that call the serial-number helpers.
func snaUsers(p *Program) {
	var keys []string
	for k := range p.FuncByKey {
		keys = append(keys, k)
	}
	sort.Strings(keys)
	for _, k := range keys {
		fn := p.FuncByKey[k]
		if isSpecFile(p, fn) || fn.Parent() != nil {
			continue
		}
		uses := false
		var scan func(f *ssa.Function)
		scan = func(f *ssa.Function) {
			for _, b := range f.Blocks {
				for _, in := range b.Instrs {
					if c, ok := in.(ssa.CallInstruction); ok {
						if sc := c.Common().StaticCallee(); sc != nil && strings.HasPrefix(sc.Name(), "sna") {
							uses = true
						}
					}
				}
			}
			for _, af := range f.AnonFuncs {
				scan(af)
			}
		}
		scan(fn)
		if uses && !strings.HasPrefix(fn.Name(), "sna") {
			fmt.Println(k)
		}
	}
}

func seqScan(p *Program) {
	for _, s := range seqSites(p) {
		fmt.Println(s)
	}
}

// seqSites lists the raw ordering comparisons between two sequence-number values in the package.
func seqSites(p *Program) []string {
	var out []string
	var keys []string
	for k := range p.FuncByKey {
		keys = append(keys, k)
	}
	sort.Strings(keys)
	for _, k := range keys {
		fn := p.FuncByKey[k]
		if isSpecFile(p, fn) {
			continue
		}
		var scan func(f *ssa.Function)
		scan = func(f *ssa.Function) {
			curNames = debugNames(f)
			defer func() { curNames = nil }()
			for _, b := range f.Blocks {
				for _, in := range b.Instrs {
					if c, ok := in.(*ssa.Call); ok {
						// the builtins max / min order their operands as plain unsigned integers
						if bi, ok := c.Call.Value.(*ssa.Builtin); ok && (bi.Name() == "max" || bi.Name() == "min") {
							seq, consts := false, 0
							for _, a := range c.Call.Args {
								if _, isC := a.(*ssa.Const); isC {
									consts++
									continue
								}
								bt, ok := a.Type().Underlying().(*types.Basic)
								if ok && (bt.Kind() == types.Uint32 || bt.Kind() == types.Uint16) && isSeqTyped(a, 0) {
									seq = true
								}
							}
							if seq && consts == 0 {
								pos := p.Fset.Position(c.Pos())
								out = append(out, fmt.Sprintf("%s (%s:%d, builtin %s)", k, baseName(pos.Filename), pos.Line, bi.Name()))
							}
						}
						continue
					}
					t, ok := in.(*ssa.BinOp)
					if !ok {
						continue
					}
					switch t.Op.String() {
					case "<", "<=", ">", ">=":
					default:
						continue
					}
					{
						var other ssa.Value
						if _, c := t.X.(*ssa.Const); c {
							other = t.Y
						} else if _, c := t.Y.(*ssa.Const); c {
							other = t.X
						}
						if d, ok := other.(*ssa.BinOp); ok && d.Op.String() == "-" && widenedSeq(d.X) && widenedSeq(d.Y) {
							pos := p.Fset.Position(t.Pos())
							out = append(out, fmt.Sprintf("%s (%s:%d, sign of a widened difference)", k, baseName(pos.Filename), pos.Line))
							continue
						}
					}
					if _, c := t.X.(*ssa.Const); c {
						continue
					}
					if _, c := t.Y.(*ssa.Const); c {
						continue
					}
					// a sequence number widened to a larger integer type before it is compared or subtracted has lost its
					// modular wrap-around: int(a) < int(b), and int(a)-int(b) compared with a constant, are raw comparisons too
					if widenedSeq(t.X) && widenedSeq(t.Y) {
						pos := p.Fset.Position(t.Pos())
						out = append(out, fmt.Sprintf("%s (%s:%d, widened operands)", k, baseName(pos.Filename), pos.Line))
						continue
					}
					bt, ok := t.X.Type().Underlying().(*types.Basic)
					if !ok || (bt.Kind() != types.Uint32 && bt.Kind() != types.Uint16) {
						continue
					}
					if isSeqTyped(t.X, 0) && isSeqTyped(t.Y, 0) {
						pos := p.Fset.Position(t.Pos())
						out = append(out, fmt.Sprintf("%s (%s:%d)", k, baseName(pos.Filename), pos.Line))
					}
				}
			}
			for _, af := range f.AnonFuncs {
				scan(af)
				curNames = debugNames(f)
			}
		}
		scan(fn)
	}
	return out
}

// widenedSeq: v is a conversion of a 16- or 32-bit unsigned sequence-number value to a wider integer type.
func widenedSeq(v ssa.Value) bool {
	c, ok := v.(*ssa.Convert)
	if !ok {
		return false
	}
	from, ok1 := c.X.Type().Underlying().(*types.Basic)
	to, ok2 := c.Type().Underlying().(*types.Basic)
	if !ok1 || !ok2 || (from.Kind() != types.Uint32 && from.Kind() != types.Uint16) {
		return false
	}
	switch to.Kind() {
	case types.Int, types.Int64, types.Uint64, types.Uint:
	case types.Int32, types.Uint32:
		if from.Kind() != types.Uint16 {
			return false
		}
	default:
		return false
	}
	return isSeqTyped(c.X, 0)
}
