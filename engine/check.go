package main

// The check driver: baseline comparison, verdicts, evidence, replays.

import (
	"encoding/json"
	"flag"
	"fmt"
	"os"
	"path/filepath"
	"sort"
	"strconv"
	"strings"
	"time"
)

type BaselineEntry struct {
	Name   string   `json:"name"`
	Func   string   `json:"function"`
	Kind   string   `json:"kind"`
	Tags   []string `json:"tags"`
	Status string   `json:"status"` // proved | unproved
	Secs   float64  `json:"solver_s"`
	Clause string   `json:"clause,omitempty"`
}

type Baseline struct {
	Note        string              `json:"note"`
	Obligations []BaselineEntry     `json:"obligations"`
	Abstracted  map[string][]string `json:"abstracted,omitempty"` // per function: callees without contract that were havocked (not executed inline) on the pinned tree
	BoundedUnreliable map[string][]string `json:"bounded_unreliable,omitempty"` // per function: obligations that the bounded fall-back refutes on the pinned tree although they hold (its refutations of these are not believed)
}

type KnownFinding struct {
	Kind       string `json:"kind"` // "finding" or "fixed"
	Property   string `json:"property"`
	Obligation string `json:"obligation"`
	What       string `json:"what"`
	Commit     string `json:"commit,omitempty"`
	Witness    string `json:"witness,omitempty"`
}

const verifRoot = "/verif"

func loadBaseline() (*Baseline, error) {
	b := &Baseline{}
	// SCTPVC_BASELINE_FILE: a frozen copy of the baseline (used by the seeded-change runs, which take hours)
	data, err := os.ReadFile(envOr("SCTPVC_BASELINE_FILE", filepath.Join(verifRoot, "baseline", "obligations.json")))
	if err != nil {
		return nil, err
	}
	if err := json.Unmarshal(data, b); err != nil {
		return nil, err
	}
	return b, nil
}

func loadKnown() []KnownFinding {
	var k []KnownFinding
	data, err := os.ReadFile(filepath.Join(verifRoot, "known_findings.json"))
	if err != nil {
		return nil
	}
	json.Unmarshal(data, &k)
	return k
}

// oblTags returns the effective tags of an obligation (safety obligations take the contract's safety tags).
func oblTags(c *Contract, kind string, tags []string) []string {
	if kind == "safe" {
		return c.Safety
	}
	if len(tags) > 0 {
		return tags
	}
	if kind == "pre" || kind == "frame" || kind == "decreases" {
		if len(c.Tags) > 0 {
			return c.Tags
		}
		return c.allClauseTags()
	}
	return tags
}

func contractServes(c *Contract, prop string) bool {
	if hasTag(c.Tags, prop) || hasTag(c.Safety, prop) || hasTag(c.Serial, prop) {
		return true
	}
	chk := func(cls []*Clause) bool {
		for _, cl := range cls {
			if hasTag(cl.Tags, prop) {
				return true
			}
		}
		return false
	}
	if chk(c.Ensures) || chk(c.Requires) || chk(c.AtReturns) {
		return true
	}
	for _, ls := range c.Loops {
		if chk(ls.Invariants) || chk(ls.AtEnd) || chk(ls.AtEntry) || hasTag(ls.Complete, prop) {
			return true
		}
	}
	for _, ac := range append(append([]*AtCall{}, c.AtCalls...), c.AtStores...) {
		if hasTag(ac.Clause.Tags, prop) {
			return true
		}
	}
	return false
}

func cmdBaseline(args []string) int {
	fs := flag.NewFlagSet("baseline", flag.ExitOnError)
	repo := fs.String("repo", "/repo", "repository")
	timeout := fs.Int("t", 30, "solver timeout (s)")
	jobs := fs.Int("j", 5, "parallel obligations")
	limit := fs.Float64("limit", 20, "obligations slower than this (summed best solver seconds over sites) are not claimed")
	fpat := fs.String("f", "", "only re-run contracts matching this regexp (others keep their previous entries)")
	fs.Parse(args)
	p, err := loadProgram(*repo)
	if err != nil {
		fmt.Println("LOAD ERROR:", err)
		return 2
	}
	prev, _ := loadBaseline()
	keep := map[string][]BaselineEntry{}
	if prev != nil {
		for _, e := range prev.Obligations {
			keep[e.Func] = append(keep[e.Func], e)
		}
	}
	b := &Baseline{Note: "obligations discharged on the pinned tree; written only by `sctpvc baseline`, never by a check"}
	cfg := Config{TimeoutS: *timeout, Jobs: *jobs}
	for _, key := range p.Order {
		c := p.Contracts[key]
		if c.Trusted || c.NoVerify {
			continue
		}
		if *fpat != "" && !matchRe(*fpat, key) {
			b.Obligations = append(b.Obligations, keep[key]...)
			if prev != nil && prev.Abstracted != nil {
				if b.Abstracted == nil {
					b.Abstracted = map[string][]string{}
				}
				if a, ok := prev.Abstracted[key]; ok {
					b.Abstracted[key] = a
				}
			}
			if prev != nil && prev.BoundedUnreliable != nil {
				if a, ok := prev.BoundedUnreliable[key]; ok {
					if b.BoundedUnreliable == nil {
						b.BoundedUnreliable = map[string][]string{}
					}
					b.BoundedUnreliable[key] = a
				}
			}
			continue
		}
		delete(keep, key)
		rep := verifyFunction(p, c, cfg, nil)
		if b.Abstracted == nil {
			b.Abstracted = map[string][]string{}
		}
		b.Abstracted[key] = append([]string{}, rep.Abstracted...)
		if fn := p.FuncByKey[key]; fn != nil && len(findLoops(fn)) > 0 && c.usableAtCalls() {
			// self-test of the bounded fall-back on the pinned tree: whatever it refutes here holds in fact (or is not claimed),
			// so its refutations of these obligations on a changed tree are not believed
			seen := map[string]bool{}
			if rep.Wall > 20 {
				// too expensive to self-test: none of its bounded refutations is believed
				if b.BoundedUnreliable == nil {
					b.BoundedUnreliable = map[string][]string{}
				}
				b.BoundedUnreliable[key] = []string{"*"}
			} else {
				cfgB := cfg
				cfgB.Unroll = 3
				cfgB.TimeoutS = 10
				repB := func() (r *FuncReport) {
					defer func() {
						if e := recover(); e != nil {
							r = &FuncReport{Key: key}
						}
					}()
					return verifyFunction(p, c, cfgB, nil)
				}()
				for _, r := range repB.Results {
					if r.Status == "refuted" && r.Kind != "inv" && r.Kind != "decreases" && !seen[r.Name] {
						seen[r.Name] = true
						if b.BoundedUnreliable == nil {
							b.BoundedUnreliable = map[string][]string{}
						}
						b.BoundedUnreliable[key] = append(b.BoundedUnreliable[key], r.Name)
						fmt.Printf("   bounded fall-back refutes %s on the pinned tree: not believed on changed trees\n", r.Name)
					}
				}
			}
		}
		fmt.Printf("== %s (%.1fs)\n", key, rep.Wall)
		for _, e := range rep.Errors {
			fmt.Println("   ERROR:", e)
		}
		if !rep.SmokeOK && len(rep.Errors) == 0 {
			fmt.Println("   SMOKE:", rep.SmokeMsg)
			continue
		}
		for _, r := range rep.Results {
			tags := oblTags(c, r.Kind, r.Tags)
			st := "unproved"
			if r.Status == "proved" && r.Secs <= *limit {
				st = "proved"
			} else if r.Status == "proved" {
				// discharged, but too slow for the quick tier: claimed by the thorough tier only
				st = "proved-slow"
			}
			if st != "proved" {
				fmt.Printf("   %-8s %s (%.1fs) %s\n", r.Status, r.Name, r.Secs, r.FailSite)
			}
			b.Obligations = append(b.Obligations, BaselineEntry{Name: r.Name, Func: key, Kind: r.Kind, Tags: tags, Status: st, Secs: round2(r.Secs), Clause: r.Src})
		}
	}
	wrep := verifyWriters(p)
	for _, e := range wrep.Errors {
		fmt.Println("   ERROR:", e)
	}
	for _, r := range wrep.Results {
		st := "unproved"
		if r.Status == "proved" {
			st = "proved"
		} else {
			fmt.Printf("   %-8s %s %s\n", r.Status, r.Name, r.FailSite)
		}
		b.Obligations = append(b.Obligations, BaselineEntry{Name: r.Name, Func: packageKey, Kind: r.Kind, Tags: r.Tags, Status: st, Clause: r.Src})
	}
	os.MkdirAll(filepath.Join(verifRoot, "baseline"), 0o755)
	data, _ := json.MarshalIndent(b, "", " ")
	if err := os.WriteFile(filepath.Join(verifRoot, "baseline", "obligations.json"), data, 0o644); err != nil {
		fmt.Println(err)
		return 2
	}
	n := 0
	for _, e := range b.Obligations {
		if e.Status == "proved" {
			n++
		}
	}
	fmt.Printf("baseline: %d obligations, %d proved\n", len(b.Obligations), n)
	return 0
}

func round2(f float64) float64 { return float64(int(f*100+0.5)) / 100 }

type Evidence struct {
	PropertyID  string         `json:"property_id"`
	Tier        string         `json:"tier"`
	Seed        int            `json:"seed"`
	Level       string         `json:"level"`
	Coverage    map[string]any `json:"coverage"`
	Assumptions []string       `json:"assumptions"`
	WallS       float64        `json:"wall_s"`
	Violations  int            `json:"violations"`
}

func cmdCheck(args []string) int {
	if len(args) < 1 {
		fmt.Println("usage: sctpvc check <Cxx> [--tier quick|thorough]")
		return 2
	}
	prop := args[0]
	fs := flag.NewFlagSet("check", flag.ExitOnError)
	tier := fs.String("tier", envOr("VERIF_TIER", "quick"), "quick|thorough")
	repo := fs.String("repo", "/repo", "repository")
	jobs := fs.Int("j", 5, "parallel obligations")
	fs.Parse(args[1:])
	seed, _ := strconv.Atoi(envOr("VERIF_SEED", "0"))
	t0 := time.Now()
	timeout := 30
	if *tier == "thorough" {
		timeout = 120
	}
	undecided := func(msg string) int {
		fmt.Printf("UNDECIDED property=%s reason=%s\n", prop, msg)
		return 2
	}
	base, err := loadBaseline()
	if err != nil {
		return undecided("no-baseline: " + err.Error())
	}
	p, err := loadProgram(*repo)
	if err != nil {
		// a tree that does not type-check together with the contract files: anchors lost
		return undecided("load-error: " + err.Error())
	}
	known := loadKnown()
	knownByObl := map[string]KnownFinding{}
	for _, k := range known {
		if k.Kind == "finding" && k.Property == prop {
			knownByObl[k.Obligation] = k
		}
	}
	// expected obligations
	want := map[string]BaselineEntry{}
	funcs := map[string]bool{}
	for _, e := range base.Obligations {
		if hasTag(e.Tags, prop) && (e.Status == "proved" || (e.Status == "proved-slow" && *tier == "thorough") || knownByObl[e.Name].Obligation != "") {
			want[e.Name] = e
			funcs[e.Func] = true
		}
	}
	if len(want) == 0 {
		return undecided("no obligations in baseline for this property")
	}
	// functions whose only obligations are known findings still have to be run
	for _, e := range base.Obligations {
		if _, ok := knownByObl[e.Name]; ok {
			want[e.Name] = e
			funcs[e.Func] = true
		}
	}
	cfg := Config{TimeoutS: timeout, Jobs: *jobs, WantAll: *tier == "thorough"}
	got := map[string]*OblResult{}
	var assumptions = map[string]bool{}
	var fnames []string
	var anchorLost []string
	var vacuous []string
	var bounded, boundedHits []string
	var solverS float64
	byBackend := map[string]int{}
	for _, key := range p.Order {
		if !funcs[key] {
			continue
		}
		c := p.Contracts[key]
		filter := func(o *Obl) bool {
			if o.Smoke {
				return true
			}
			_, ok := want[o.Name]
			return ok
		}
		rep := verifyFunction(p, c, cfg, filter)
		// a failure is only believed if it reproduces on a second, independent run of the function
		failed := false
		for _, r := range rep.Results {
			if _, isKnown := knownByObl[r.Name]; isKnown {
				continue // a listed finding is expected to fail: no confirmation run for it
			}
			if r.Status != "proved" {
				failed = true
			}
		}
		if failed && len(rep.Errors) == 0 {
			// the confirmation run gets four times the solver budget, so that a timeout under load is not mistaken for a failure
			cfg2 := cfg
			cfg2.TimeoutS = cfg.TimeoutS * 4
			rep2 := verifyFunction(p, c, cfg2, func(o *Obl) bool {
				if o.Smoke {
					return true
				}
				for _, r := range rep.Results {
					if _, isKnown := knownByObl[r.Name]; isKnown {
						continue
					}
					if r.Name == o.Name && r.Status != "proved" {
						return true
					}
				}
				return false
			})
			ok2 := map[string]*OblResult{}
			for _, r := range rep2.Results {
				ok2[r.Name] = r
			}
			for i, r := range rep.Results {
				if r.Status != "proved" {
					if r2 := ok2[r.Name]; r2 != nil && r2.Status == "proved" {
						assumptions["engine: obligation "+r.Name+" failed on the first run and discharged on the re-run (solver instability); counted as discharged"] = true
						rep.Results[i] = r2
					}
				}
			}
		}
		if base.Abstracted != nil {
			if was, ok := base.Abstracted[key]; ok {
				known := map[string]bool{}
				for _, a := range was {
					known[a] = true
				}
				var fresh []string
				for _, a := range rep.Abstracted {
					if !known[a] {
						fresh = append(fresh, a)
					}
				}
				if len(fresh) > 0 {
					// the function now calls something with loops that has no contract (a helper introduced by a
					// refactoring): its effect is havocked, so an obligation that no longer discharges says nothing about
					// the property. Undecided, not a violation.
					for i, r := range rep.Results {
						if _, isKnown := knownByObl[r.Name]; isKnown {
							continue
						}
						if r.Status != "proved" {
							anchorLost = append(anchorLost, key+": "+r.Name+" not decided: new callee(s) without contract: "+strings.Join(fresh, ", "))
							rep.Results[i] = nil
						}
					}
					var kept []*OblResult
					for _, r := range rep.Results {
						if r != nil {
							kept = append(kept, r)
						}
					}
					rep.Results = kept
				}
			}
		}
		fnames = append(fnames, key)
		for _, e := range rep.Errors {
			anchorLost = append(anchorLost, key+": "+e)
		}
		if len(rep.Errors) > 0 && c != nil && c.usableAtCalls() {
			// bounded fall-back: clauses about the interior of the function lost their anchors (its loops were rewritten
			// or a local was renamed). Its pre/postconditions and assertions are checked with every loop unrolled a few
			// times instead. Every explored path is exact, so a refutation is a genuine counterexample (reported as a
			// violation, labelled bounded); a pass proves nothing for longer runs and leaves the obligations undecided.
			k := 3
			if *tier == "thorough" {
				k = 6
			}
			cfgB := cfg
			cfgB.Unroll = k
			if cfgB.TimeoutS > 15 {
				cfgB.TimeoutS = 15 // only refutations matter here, and they come fast or not at all
			}
			repB := func() (r *FuncReport) {
				defer func() {
					if e := recover(); e != nil {
						r = &FuncReport{Key: key, Errors: []string{fmt.Sprint(e)}}
					}
				}()
				return verifyFunction(p, c, cfgB, filter)
			}()
			unreliable := map[string]bool{}
			if base.BoundedUnreliable != nil {
				for _, n := range base.BoundedUnreliable[key] {
					unreliable[n] = true
				}
			}
			for _, r := range repB.Results {
				if r.Status == "refuted" && r.Kind != "inv" && r.Kind != "decreases" && !unreliable[r.Name] && !unreliable["*"] {
					r.Output = fmt.Sprintf("bounded fall-back (loops unrolled %d times, loop clauses of the contract could not be bound): the counterexample is exact for runs that need no more iterations\n", k) + r.Output
					got[r.Name] = r
					boundedHits = append(boundedHits, r.Name)
				}
			}
			bounded = append(bounded, fmt.Sprintf("%s: loops unrolled %d times after anchor loss (%d obligations re-checked, refutations reported, passes left undecided)", key, k, len(repB.Results)))
		}
		if !rep.SmokeOK && len(rep.Errors) == 0 {
			vacuous = append(vacuous, rep.SmokeMsg)
		}
		for _, r := range rep.Results {
			got[r.Name] = r
			solverS += r.Secs
			if r.Status == "proved" {
				byBackend[r.Backend]++
			}
		}
		for _, a := range rep.Assumed {
			assumptions[a] = true
		}
		for _, a := range rep.Abstracted {
			assumptions["callee without contract, havocked by inferred write set: "+a] = true
		}
		if len(rep.Inlined) > 0 {
			assumptions["callees executed inline (their real bodies, no contract): "+strings.Join(rep.Inlined, ", ")] = true
		}
		for _, n := range rep.Notes {
			if strings.Contains(n, "whole-heap havoc") || strings.Contains(n, "not modelled") || strings.Contains(n, "unsupported") {
				assumptions["engine note ("+key+"): "+n] = true
			}
		}
	}
	if funcs[packageKey] {
		rep := verifyWriters(p)
		fnames = append(fnames, packageKey)
		for _, e := range rep.Errors {
			anchorLost = append(anchorLost, e)
		}
		for _, r := range rep.Results {
			if _, ok := want[r.Name]; ok {
				got[r.Name] = r
				if r.Status == "proved" {
					byBackend[r.Backend]++
				}
			}
		}
	}
	for k := range funcs {
		if k == packageKey {
			continue
		}
		if p.Contracts[k] == nil {
			anchorLost = append(anchorLost, "contract for "+k+" disappeared")
		}
	}
	// verdicts
	var names []string
	for n := range want {
		names = append(names, n)
	}
	sort.Strings(names)
	discharged := 0
	nObl := 0
	violations := 0
	var samples []any
	var knownOut []string
	exit := 0
	replayDir := filepath.Join(envOr("SCTPVC_REPLAY_DIR", filepath.Join(verifRoot, "replays")), prop)
	for _, n := range names {
		e := want[n]
		r := got[n]
		kf, isKnown := knownByObl[n]
		if !isKnown {
			nObl++
		}
		switch {
		case r == nil:
			if !isKnown {
				anchorLost = append(anchorLost, "obligation not generated: "+n)
			}
		case r.Status == "proved":
			if isKnown {
				// a listed finding that no longer fails: not an error, just not printed
				continue
			}
			discharged++
			if len(samples) < 12 {
				samples = append(samples, map[string]any{"obligation": n, "function": e.Func, "kind": e.Kind, "backend": r.Backend, "solver_s": round2(r.Secs), "sites": r.Sites, "clause": e.Clause})
			}
		default:
			if isKnown {
				msg := fmt.Sprintf("KNOWN-FINDING: property=%s %s — %s", prop, n, kf.What)
				fmt.Println(msg)
				knownOut = append(knownOut, n+": "+kf.What)
				continue
			}
			violations++
			exit = 1
			os.MkdirAll(replayDir, 0o755)
			path := filepath.Join(replayDir, smtName(n)+".json")
			reproduced, how := tryReplay(p, *repo, r)
			rec := map[string]any{"property": prop, "obligation": n, "function": e.Func, "clause": e.Clause, "status": r.Status, "fail_site": r.FailSite,
				"model": r.Model, "solver_output": r.Output, "replay": how, "reproduced_on_real_code": reproduced}
			data, _ := json.MarshalIndent(rec, "", " ")
			os.WriteFile(path, data, 0o644)
			suffix := ""
			if !reproduced {
				suffix = " no-failing-input-found"
			}
			fmt.Printf("VIOLATION property=%s replay=%s obligation=%q status=%s%s\n", prop, path, n, r.Status, suffix)
		}
	}
	for _, kf := range known {
		if kf.Kind == "finding" && kf.Property == prop && kf.Obligation == "" {
			fmt.Printf("KNOWN-FINDING: property=%s %s\n", prop, kf.What)
			knownOut = append(knownOut, kf.What)
		}
	}
	for _, v := range vacuous {
		violations++
		exit = 1
		os.MkdirAll(replayDir, 0o755)
		path := filepath.Join(replayDir, "vacuity.json")
		data, _ := json.MarshalIndent(map[string]any{"property": prop, "obligation": "smoke", "message": v}, "", " ")
		os.WriteFile(path, data, 0o644)
		fmt.Printf("VIOLATION property=%s replay=%s obligation=%q no-failing-input-found\n", prop, path, v)
	}
	if len(anchorLost) > 0 && exit == 0 {
		// Some contracts can no longer be bound to the code (a local, field or call they name is gone): those
		// obligations were not generated and nothing is claimed about them. Everything that could be generated was
		// discharged, so this is not a violation; the lines below and the evidence (discharged < obligations,
		// "undecided") say exactly what was not explored.
		for _, a := range anchorLost {
			fmt.Printf("UNDECIDED property=%s reason=anchor-lost %s\n", prop, a)
		}
	}
	var as []string
	for a := range assumptions {
		as = append(as, a)
	}
	as = append(as, standingAssumptions...)
	sort.Strings(as)
	sort.Strings(fnames)
	// obligations of this property's contracts that the baseline run could not discharge: generated, not claimed, not counted
	var notClaimed []string
	for _, e := range base.Obligations {
		if e.Status != "proved" && hasTag(e.Tags, prop) {
			if e.Status == "proved-slow" && *tier == "thorough" {
				continue
			}
			if _, kf := knownByObl[e.Name]; !kf {
				note := ""
				if e.Status == "proved-slow" {
					note = " [discharged by the thorough tier only]"
				}
				notClaimed = append(notClaimed, e.Name+note+" :: "+e.Clause)
			}
		}
	}
	sort.Strings(notClaimed)
	ev := Evidence{PropertyID: prop, Tier: *tier, Seed: seed, Level: "proof", WallS: round2(time.Since(t0).Seconds()), Violations: violations, Assumptions: as}
	ev.Coverage = map[string]any{
		"obligations":              nObl,
		"discharged":               discharged,
		"checker_cmd":              fmt.Sprintf("/verif/bin/sctpvc check %s --tier %s  (VCs from go/ssa of /repo -tags verif; solvers z3 4.8.12, z3-new 5.1.0, cvc5 1.0.3, %ds each, first definite answer)", prop, *tier, timeout),
		"trusted_base":             trustedBase,
		"samples":                  samples,
		"by_backend":               byBackend,
		"solver_s":                 round2(solverS),
		"functions_under_contract": fnames,
		"bounded":                  append([]string{}, bounded...),
		"bounded_refutations":      boundedHits,
		"known_findings":           knownOut,
		"undecided":                anchorLost,
		"unproved_not_claimed":     notClaimed,
	}
	evDir := envOr("SCTPVC_EVIDENCE_DIR", filepath.Join(verifRoot, "evidence"))
	os.MkdirAll(evDir, 0o755)
	data, _ := json.MarshalIndent(ev, "", " ")
	os.WriteFile(filepath.Join(evDir, prop+".json"), data, 0o644)
	fmt.Printf("property=%s tier=%s obligations=%d discharged=%d known_findings=%d violations=%d undecided=%d wall=%.1fs\n", prop, *tier, nObl, discharged, len(knownOut), violations, len(anchorLost), time.Since(t0).Seconds())
	return exit
}

var trustedBase = []string{
	"golang.org/x/tools v0.29.0 go/packages + go/ssa build the SSA of /repo faithfully",
	"sctpvc SSA->SMT translation (this engine): bit-vector integers at Go widths (int = 64 bits, GOARCH=amd64), IEEE-754 binary64 floats, field-array heap, slices as (base,off,len,cap)",
	"z3 4.8.12, z3 5.1.0 (z3-new), cvc5 1.0.3 (raced per obligation; a sat/unsat disagreement is an engine error)",
	"contract expressions are type-checked by go/types in the scope of the real function and translated by the same operators as the code",
}

var standingAssumptions = []string{
	"user-supplied implementations of the exported scheduler interfaces do not modify SCTP state (they cannot reach unexported state except through the public API)",
	"functions are verified as sequential code: goroutine interleavings, channel operations, timers firing and lock hand-over are not modelled (sync.Mutex/RWMutex/atomic operations are treated as plain operations)",
	"allocation never fails; slices have fewer than 2^40 elements; int is 64 bits",
	"logger, fmt, errors, time and other listed external calls have no effect on SCTP state; their results are unconstrained",
	"values read from memory satisfy Go's type invariants (0 <= len <= cap for slice headers)",
}

func envOr(k, d string) string {
	if v := os.Getenv(k); v != "" {
		return v
	}
	return d
}

func matchRe(pat, s string) bool {
	ok, _ := regexpMatch(pat, s)
	return ok
}
