package main

// Calls: builtins, externals, inlining, modular contract application, effect analysis.

import (
	"fmt"
	"go/token"
	"go/types"
	"regexp"
	"sort"
	"strings"
	"sync"

	"golang.org/x/tools/go/ssa"
)

const maxInlineDepth = 6
const maxInlineInstrs = 120

func (x *fnExec) setResult(fr *frame, v ssa.Value, r Val) {
	if v != nil {
		fr.env[v] = r
	}
}

func (x *fnExec) call(fr *frame, st *State, ci ssa.CallInstruction, res ssa.Value) {
	cc := ci.Common()
	var args []Val
	for _, a := range cc.Args {
		args = append(args, x.val(fr, a))
	}
	rtype := cc.Signature().Results()
	var resT types.Type = rtype
	if rtype.Len() == 1 {
		resT = rtype.At(0).Type()
	}
	fresh := func(h string) Val {
		if rtype.Len() == 0 {
			return Val{K: VTuple}
		}
		v := freshVal(h, resT)
		return v
	}
	if cc.IsInvoke() {
		recv := x.val(fr, cc.Value)
		x.invoke(fr, st, ci, res, recv, args, fresh)
		return
	}
	switch f := cc.Value.(type) {
	case *ssa.Builtin:
		x.setResult(fr, res, x.builtin(fr, st, f, cc, args, resT, ci))
		return
	case *ssa.Function:
		x.staticCall(fr, st, ci, res, f, args, fresh)
		if res != nil && fr.depth == 0 {
			// ghost: the result of the most recent call of each callee, for assertions about what the code did with it
			if x.lastRes == nil {
				x.lastRes = map[string]Val{}
			}
			if v, ok := fr.env[res]; ok {
				x.lastRes[x.callKey(ci)] = v
			}
		}
		return
	case *ssa.MakeClosure:
		if fn, ok := f.Fn.(*ssa.Function); ok {
			// bind free variables
			x.closureCall(fr, st, ci, res, fn, f, args, fresh)
			return
		}
	}
	// dynamic call through a function value
	x.atCall(fr, st, ci, "funcvalue", args)
	if isUserFactoryType(x.P, cc.Value.Type()) {
		x.assumed["user-supplied "+typeName(cc.Value.Type())+" values do not modify SCTP state"] = true
		v := fresh("factory")
		x.setResult(fr, res, v)
		return
	}
	x.havocAll(st, "call through function value in "+funcKey(fr.fn)+" at "+x.P.Fset.Position(ci.Pos()).String())
	x.setResult(fr, res, fresh("dyncall"))
}

func (x *fnExec) closureCall(fr *frame, st *State, ci ssa.CallInstruction, res ssa.Value, fn *ssa.Function, mc *ssa.MakeClosure, args []Val, fresh func(string) Val) {
	if fr.depth < maxInlineDepth && len(findLoops(fn)) == 0 {
		nf := x.newFrame(fn, args, st, fr.depth+1)
		nf.inline = true
		nf.safety = fr.safety
		for i, fv := range fn.FreeVars {
			nf.env[fv] = x.val(fr, mc.Bindings[i])
		}
		x.inlineBody(fr, st, nf, res, fresh)
		return
	}
	x.havocAll(st, "closure call "+fn.Name())
	x.setResult(fr, res, fresh("closure"))
}

func (x *fnExec) inlineBody(fr *frame, st *State, nf *frame, res ssa.Value, fresh func(string) Val) {
	x.inlined[funcKey(nf.fn)] = true
	rets := x.runFunc(nf, st)
	if len(rets) == 0 {
		// never returns (panics)
		st.pc = False
		x.setResult(fr, res, fresh("noreturn"))
		return
	}
	var conds []*Term
	var sts []*State
	for _, r := range rets {
		conds = append(conds, r.cond)
		sts = append(sts, r.st)
	}
	m := mergeStates(conds, sts)
	st.pc, st.heap, st.epoch = m.pc, m.heap, m.epoch
	if res != nil {
		v := rets[len(rets)-1].val
		for i := len(rets) - 2; i >= 0; i-- {
			v = iteVal(rets[i].cond, rets[i].val, v)
		}
		if v.K == VTuple && len(v.Fs) == 0 {
			v = fresh("void")
		}
		fr.env[res] = v
	}
}

func isSpecFile(p *Program, fn *ssa.Function) bool {
	if fn.Pos().IsValid() {
		return strings.HasPrefix(baseName(p.Fset.Position(fn.Pos()).Filename), "verif_")
	}
	return false
}

func baseName(s string) string {
	if i := strings.LastIndex(s, "/"); i >= 0 {
		return s[i+1:]
	}
	return s
}

func instrCount(fn *ssa.Function) int {
	n := 0
	for _, b := range fn.Blocks {
		for _, in := range b.Instrs {
			if _, ok := in.(*ssa.DebugRef); !ok {
				n++
			}
		}
	}
	return n
}

func (x *fnExec) staticCall(fr *frame, st *State, ci ssa.CallInstruction, res ssa.Value, fn *ssa.Function, args []Val, fresh func(string) Val) {
	key := funcKey(fn)
	inPkg := x.P.inPackage(fn)
	if !inPkg {
		x.atCall(fr, st, ci, extName(fn), args)
		x.external(fr, st, ci, res, fn, args, fresh)
		return
	}
	x.atCall(fr, st, ci, key, args)
	if x.P.CalledGhost[key] {
		// ghost: calls of this callee are counted (the called("...") ghost compares the count with the one at entry)
		id := calledID(key)
		a := st.arr("X:called", BV(64))
		st.setArr("X:called", Store(a, id, BVBin("bvadd", Select(a, id), BVU(1, 64))))
	}
	c := x.P.Contracts[key]
	if key == "old" || key == "implies" {
		panic("ghost function " + key + " called from code")
	}
	ghost := isSpecFile(x.P, fn) && c == nil
	bare := c != nil && !c.Inline && len(c.Requires) == 0 && len(c.Ensures) == 0 && !c.HasMod // safety-only contract
	if ghost || (c != nil && c.Inline) || ((c == nil || bare) && x.canAutoInline(fr, fn)) {
		if fr.depth >= maxInlineDepth {
			panic("inline depth exceeded at " + key)
		}
		if c != nil && !bare && c.usableAtCalls() && !(fr.inline && !fr.safety) {
			// an inlined callee still has its preconditions checked at the call site
			vars := x.paramEnv(fn, args)
			site := "call " + key + " at " + x.P.Fset.Position(ci.Pos()).String()
			for _, cl := range c.Requires {
				if cl.Info == nil {
					continue
				}
				env := &specEnv{x: x, vars: copyVars(vars), cur: st, old: st, info: cl.Info}
				goal, hyp, sk := env.clauseGoal(cl)
				o := x.obligation(st, funcKey(x.top)+":call "+key+":pre#"+cl.Label, "pre", site, nil, goal, hyp, cl.Src)
				o.skolems = sk
				env2 := &specEnv{x: x, vars: copyVars(vars), cur: st, old: st, info: cl.Info}
				env2.assumeClause(cl, st)
			}
		}
		nf := x.newFrame(fn, args, st, fr.depth+1)
		nf.inline = true
		nf.safety = fr.safety && !ghost
		x.inlineBody(fr, st, nf, res, fresh)
		return
	}
	if c != nil && c.usableAtCalls() && (len(c.Requires) > 0 || len(c.Ensures) > 0 || c.HasMod) {
		x.contractCall(fr, st, ci, res, fn, c, args, fresh)
		return
	}
	// no contract: havoc by inferred effects
	if fr.safety && len(args) > 0 && args[0].K == VPtr && args[0].Idx == nil && fn.Signature.Recv() != nil && derefsReceiver(fn) {
		// the callee's body is not executed here, but it dereferences its receiver: a nil receiver panics inside it
		g := Not(Eq(args[0].Ref, BVU(0, 64)))
		if g != True {
			x.obligation(st, x.safetyName("nil"), "safe", "nil receiver for "+key+" (which dereferences it) at "+x.P.Fset.Position(ci.Pos()).String()+" in "+funcKey(fr.fn), nil, g, nil, "")
			x.assume(st, g)
		}
	}
	eff := x.P.effectsOf(fn)
	x.applyEffects(st, eff, "call "+key, fn, args)
	x.abstracted[key] = true
	x.setResult(fr, res, fresh("call_"+fn.Name()))
}

func (x *fnExec) canAutoInline(fr *frame, fn *ssa.Function) bool {
	if fr.depth >= maxInlineDepth-1 || len(fn.Blocks) == 0 {
		return false
	}
	if instrCount(fn) > maxInlineInstrs {
		return false
	}
	if len(findLoops(fn)) > 0 {
		return false
	}
	// no recursion: callee must not be on the current stack (depth bound covers it) and must not contain Go/Select/Defer of closures
	for _, b := range fn.Blocks {
		for _, in := range b.Instrs {
			switch in.(type) {
			case *ssa.Go, *ssa.MakeClosure:
				return false
			}
		}
	}
	return true
}

// isUserFactoryType: exported named function types of the package (stream scheduler factories) are user-supplied hooks
// that cannot reach unexported SCTP state.
func isUserFactoryType(p *Program, t types.Type) bool {
	n, ok := t.(*types.Named)
	if !ok || n.Obj().Pkg() != p.Pkg.Types || !n.Obj().Exported() {
		return false
	}
	_, isSig := n.Underlying().(*types.Signature)
	return isSig
}

// ---------- contracts at call sites ----------

func (x *fnExec) paramEnv(fn *ssa.Function, args []Val) map[types.Object]Val {
	m := map[types.Object]Val{}
	for i, p := range fn.Params {
		if i < len(args) {
			if o := p.Object(); o != nil {
				m[o] = args[i]
			}
		}
	}
	return m
}

func (x *fnExec) bindResults(vars map[types.Object]Val, fn *ssa.Function, cl *Clause, rv Val) {
	res := fn.Signature.Results()
	if res.Len() == 0 {
		return
	}
	get := func(i int) Val {
		if res.Len() == 1 {
			return rv
		}
		return rv.Fs[i]
	}
	for i := 0; i < res.Len(); i++ {
		v := res.At(i)
		if v.Name() != "" && v.Name() != "_" {
			vars[v] = get(i)
		}
	}
	// unnamed: literal params named result / resultN
	if cl != nil && cl.Lit != nil {
		for _, pv := range cl.litParams() {
			if pv == nil {
				continue
			}
			if pv.Name() == "result" {
				vars[pv] = get(0)
			} else if strings.HasPrefix(pv.Name(), "result") {
				var k int
				if _, err := fmt.Sscanf(pv.Name(), "result%d", &k); err == nil && k < res.Len() {
					vars[pv] = get(k)
				}
			}
		}
	}
}

func clauseTags(c *Contract, cl *Clause) []string {
	var own []string
	for _, t := range cl.Tags {
		if t != "TRUSTED" && t != "LEMMA" {
			own = append(own, t)
		}
	}
	if hasTag(cl.Tags, "LEMMA") {
		// a lemma serves the postconditions listed after it: it carries their properties too
		seen := map[string]bool{}
		for _, t := range own {
			seen[t] = true
		}
		after := false
		for _, e := range c.Ensures {
			if e == cl {
				after = true
				continue
			}
			if !after || hasTag(e.Tags, "LEMMA") && len(e.Tags) == 1 {
				continue
			}
			for _, t := range e.Tags {
				if t != "TRUSTED" && t != "LEMMA" && t != "-" && !seen[t] {
					seen[t] = true
					own = append(own, t)
				}
			}
		}
		if len(own) == 0 {
			own = append(own, c.Tags...)
		}
		if len(own) == 0 {
			own = c.allClauseTags()
		}
		return own
	}
	if len(own) > 0 {
		return own
	}
	if len(c.Tags) > 0 {
		return c.Tags
	}
	// an untagged helper clause (loop invariant, variant) of a contract without function-level tags supports every
	// tagged clause of that contract: it serves the union of their properties
	return c.allClauseTags()
}

func (c *Contract) allClauseTags() []string {
	seen := map[string]bool{}
	var out []string
	add := func(ts []string) {
		for _, t := range ts {
			if t != "TRUSTED" && t != "LEMMA" && t != "-" && !seen[t] {
				seen[t] = true
				out = append(out, t)
			}
		}
	}
	for _, cl := range c.Ensures {
		add(cl.Tags)
	}
	for _, cl := range c.Requires {
		add(cl.Tags)
	}
	for _, cl := range c.AtReturns {
		add(cl.Tags)
	}
	for _, ac := range c.AtCalls {
		add(ac.Clause.Tags)
	}
	for _, ac := range c.AtStores {
		add(ac.Clause.Tags)
	}
	for _, ls := range c.Loops {
		for _, cl := range ls.Invariants {
			add(cl.Tags)
		}
		for _, cl := range ls.AtEnd {
			add(cl.Tags)
		}
		for _, cl := range ls.AtEntry {
			add(cl.Tags)
		}
		add(ls.Complete)
	}
	sort.Strings(out)
	return out
}

func (x *fnExec) contractCall(fr *frame, st *State, ci ssa.CallInstruction, res ssa.Value, fn *ssa.Function, c *Contract, args []Val, fresh func(string) Val) {
	key := funcKey(fn)
	pre := st.clone()
	vars := x.paramEnv(fn, args)
	site := "call " + key + " at " + x.P.Fset.Position(ci.Pos()).String()
	for _, cl := range c.Requires {
		if cl.Info == nil {
			continue
		}
		env := &specEnv{x: x, vars: copyVars(vars), cur: st, old: st, info: cl.Info}
		goal, hyp, sk := env.clauseGoal(cl)
		if fr.inline && !fr.safety {
			// inside ghost code: no obligations
		} else {
			if oi := x.P.objInvFor(fn, cl.Label); oi != nil && !x.P.memberOf(x.top, oi) && x.receiverNonNil(st, args) != nil {
				// the callee's object invariant: established by every constructor, preserved by every method, fields
				// encapsulated (obligation objinv#Type); outside the type it holds for every non-nil object
				x.assumed["object invariant of "+oi.Type+" ("+strings.Join(oi.Preds, ", ")+") relied on at calls from outside the type; justified by obligation objinv#"+oi.Type] = true
				goal = Implies(x.receiverNonNil(st, args), True)
				goal = True
			}
			o := x.obligation(st, funcKey(x.top)+":call "+key+":pre#"+cl.Label, "pre", site, nil, goal, hyp, cl.Src)
			o.skolems = sk
		}
		env.assumeClause(cl, st)
	}
	// havoc
	if c.HasMod {
		x.applyModifies(fr, st, c, fn, vars, args)
	} else {
		x.applyEffects(st, x.P.effectsOf(fn), "call "+key, fn, args)
	}
	rv := fresh("ret_" + fn.Name())
	x.recordRefs(rv)
	x.markFreshResults(c, fn, rv)
	for _, cl := range c.Ensures {
		if cl.Info == nil {
			continue
		}
		v2 := copyVars(vars)
		x.bindResults(v2, fn, cl, rv)
		env := &specEnv{x: x, vars: v2, cur: st, old: pre, info: cl.Info, callee: true}
		env.assumeClause(cl, st)
	}
	if c.Trusted {
		x.assumed["trusted contract: "+key] = true
	}
	x.setResult(fr, res, rv)
}

func copyVars(m map[types.Object]Val) map[types.Object]Val {
	n := make(map[types.Object]Val, len(m)+4)
	for k, v := range m {
		n[k] = v
	}
	return n
}

// applyModifies havocs the declared frame of a contract.
// Forms: "*" ; "x.f" (field f of object x, all leaves) ; "x.f[*]" (elements of slice x.f) ; "T.f" whole field array of type T ; "x[*]" elements of slice parameter.
func (x *fnExec) applyModifies(fr *frame, st *State, c *Contract, fn *ssa.Function, vars map[types.Object]Val, args []Val) {
	for _, m := range c.Modifies {
		if m == "*" {
			x.havocAll(st, "modifies * of "+c.Key)
			return
		}
	}
	// evaluate all targets in the pre-state first
	type target struct {
		p     Val
		ty    types.Type
		elems bool
		sl    Val
		whole string
	}
	var ts []target
	pre := st.clone()
	for _, m := range c.Modifies {
		elems := false
		if strings.HasSuffix(m, "[*]") {
			elems = true
			m = strings.TrimSuffix(m, "[*]")
		}
		tg, err := x.resolveModTarget(c, fn, vars, pre, m)
		if err != nil {
			x.note("modifies target %q of %s cannot be resolved (%v): whole-heap havoc", m, c.Key, err)
			x.havocAll(st, "unresolved modifies of "+c.Key)
			return
		}
		tg.elems = elems
		ts = append(ts, target{tg.p, tg.ty, elems, tg.sl, tg.whole})
	}
	for _, t := range ts {
		switch {
		case t.whole != "":
			x.havocKeys(st, map[string]bool{t.whole: true}, []string{t.whole + ".", t.whole + "#"})
		case t.elems:
			et := t.ty.Underlying().(*types.Slice).Elem()
			for _, l := range leaves(et) {
				key := "E:" + typeName(et) + l.path
				a := st.arr(key, l.sort)
				st.setArr(key, Store(a, t.sl.base(), Fresh("hv_elems", Arr(BV(64), l.sort))))
			}
		default:
			x.store(st, t.p, t.ty, freshVal("hv_"+smtName(t.p.Prefix), t.ty))
		}
	}
}

type modTarget struct {
	p     Val
	ty    types.Type
	elems bool
	sl    Val
	whole string
}

func (x *fnExec) resolveModTarget(c *Contract, fn *ssa.Function, vars map[types.Object]Val, st *State, m string) (modTarget, error) {
	parts := strings.Split(m, ".")
	// root: parameter name
	var root Val
	var rootT types.Type
	found := false
	for o, v := range vars {
		if o.Name() == parts[0] {
			root, rootT, found = v, o.Type(), true
			break
		}
	}
	if !found {
		// type-level: T.f
		if obj := x.P.Pkg.Types.Scope().Lookup(parts[0]); obj != nil {
			if _, ok := obj.(*types.TypeName); ok {
				return modTarget{whole: "F:" + parts[0] + "." + strings.Join(parts[1:], ".")}, nil
			}
		}
		return modTarget{}, fmt.Errorf("unknown root %s", parts[0])
	}
	cur := root
	curT := rootT
	if len(parts) == 1 {
		if _, ok := curT.Underlying().(*types.Slice); ok {
			return modTarget{ty: curT, sl: cur}, nil
		}
		return modTarget{}, fmt.Errorf("bare parameter")
	}
	for i := 1; i < len(parts); i++ {
		// cur must be a pointer to struct (or we load it)
		pt, ok := curT.Underlying().(*types.Pointer)
		if !ok {
			return modTarget{}, fmt.Errorf("%s is not a pointer", strings.Join(parts[:i], "."))
		}
		stt, ok := pt.Elem().Underlying().(*types.Struct)
		if !ok {
			return modTarget{}, fmt.Errorf("not a struct")
		}
		if parts[i] == "*" && i == len(parts)-1 {
			// every field of the object
			return modTarget{p: Val{K: VPtr, Prefix: cur.Prefix, Ref: cur.Ref, Idx: cur.Idx}, ty: pt.Elem()}, nil
		}
		var fld *types.Var
		for j := 0; j < stt.NumFields(); j++ {
			if stt.Field(j).Name() == parts[i] {
				fld = stt.Field(j)
			}
		}
		if fld == nil {
			return modTarget{}, fmt.Errorf("no field %s", parts[i])
		}
		addr := Val{K: VPtr, Prefix: cur.Prefix + "." + fld.Name(), Ref: cur.Ref, Idx: cur.Idx}
		if i == len(parts)-1 {
			t := modTarget{p: addr, ty: fld.Type()}
			if _, ok := fld.Type().Underlying().(*types.Slice); ok {
				t.sl = x.load(st, addr, fld.Type())
			}
			return t, nil
		}
		// descend: embedded struct by value or pointer field
		if _, ok := fld.Type().Underlying().(*types.Struct); ok {
			cur = addr
			curT = types.NewPointer(fld.Type())
			continue
		}
		cur = x.load(st, addr, fld.Type())
		curT = fld.Type()
	}
	return modTarget{}, fmt.Errorf("unreachable")
}

// ---------- effect analysis ----------

type effectSet struct {
	top  bool
	keys map[string]bool // heap key prefixes (field-level): "F:T.f", "E:elem", "M:map", "C:type", "G:name"
}

func (e *effectSet) add(o *effectSet) {
	if o.top {
		e.top = true
	}
	for k := range o.keys {
		e.keys[k] = true
	}
}

func staticAddrPrefix(v ssa.Value) string {
	switch t := v.(type) {
	case *ssa.FieldAddr:
		st := t.X.Type().Underlying().(*types.Pointer).Elem().Underlying().(*types.Struct)
		return staticAddrPrefix(t.X) + "." + st.Field(t.Field).Name()
	case *ssa.IndexAddr:
		switch u := t.X.Type().Underlying().(type) {
		case *types.Slice:
			return "E:" + typeName(u.Elem())
		case *types.Pointer:
			return "E:" + typeName(u.Elem().Underlying().(*types.Array).Elem())
		}
	case *ssa.Global:
		return "G:" + t.Name()
	}
	if pt, ok := v.Type().Underlying().(*types.Pointer); ok {
		return canonPrefix(pt.Elem())
	}
	return "?"
}

var pureExternalPkgs = map[string]bool{
	"fmt": true, "errors": true, "strings": true, "time": true, "math": true, "math/bits": true,
	"encoding/binary": true, "bytes": true, "encoding/hex": true, "hash/crc32": true, "sync/atomic": true,
	"sync": true, "github.com/pion/logging": true, "math/rand": true, "crypto/rand": true, "strconv": true,
	"github.com/pion/randutil": true, "io": true, "net": true, "os": true, "context": true, "unicode/utf8": true,
	"slices": true, "cmp": true, "runtime": true, "internal/race": true, "unsafe": true, "reflect": true,
	"github.com/pion/transport/v4/deadline": true, "crypto/hmac": true, "crypto/sha256": true, "hash": true,
	"iter": true, "maps": true,
}

func extName(fn *ssa.Function) string {
	s := fn.String()
	return s
}

func (p *Program) effectsOf(fn *ssa.Function) *effectSet {
	if p.effects == nil {
		p.effects = map[*ssa.Function]*effectSet{}
	}
	if e, ok := p.effects[fn]; ok {
		return e
	}
	e := &effectSet{keys: map[string]bool{}}
	p.effects[fn] = e // recursion guard: optimistic, fixed by iteration below
	for iter := 0; iter < 4; iter++ {
		before := len(e.keys)
		bt := e.top
		p.effectsPass(fn, e)
		if len(e.keys) == before && e.top == bt {
			break
		}
	}
	return e
}

func (p *Program) inPackage(fn *ssa.Function) bool {
	if fn.Pkg == p.SSA || (fn.Origin() != nil && fn.Origin().Pkg == p.SSA) {
		return true
	}
	// synthetic wrappers (promoted methods, bound methods) of package types have no package of their own
	if fn.Pkg == nil && fn.Synthetic != "" && len(fn.Blocks) > 0 {
		if fn.Signature.Recv() != nil {
			rt := fn.Signature.Recv().Type()
			if pt, ok := rt.(*types.Pointer); ok {
				rt = pt.Elem()
			}
			if n, ok := rt.(*types.Named); ok && n.Obj().Pkg() == p.Pkg.Types {
				return true
			}
		}
		if fn.Parent() != nil {
			return p.inPackage(fn.Parent())
		}
	}
	return false
}

func (p *Program) effectsPass(fn *ssa.Function, e *effectSet) {
	inPkg := p.inPackage(fn)
	if !inPkg {
		if fn.Pkg != nil && (pureExternalPkgs[fn.Pkg.Pkg.Path()] || fn.Pkg.Pkg.Path() == "sort") {
			// externals write only through the pointers/slices/closures we pass them: accounted at the call site
			return
		}
		e.top = true
		return
	}
	if len(fn.Blocks) == 0 {
		e.top = true
		return
	}
	for _, b := range fn.Blocks {
		for _, in := range b.Instrs {
			switch t := in.(type) {
			case *ssa.Store:
				if al, ok := t.Addr.(*ssa.Alloc); ok && !al.Heap {
					continue
				}
				pt := t.Addr.Type().Underlying().(*types.Pointer).Elem()
				pre := staticAddrPrefix(t.Addr)
				// local struct allocs: FieldAddr of non-escaping Alloc
				if rootIsLocalAlloc(t.Addr) {
					continue
				}
				for _, l := range leaves(pt) {
					e.keys[pre+l.path] = true
				}
			case *ssa.MapUpdate:
				mt := t.Map.Type().Underlying().(*types.Map)
				e.keys[mapPrefix(mt)] = true
			case *ssa.Defer:
				if sc := t.Call.StaticCallee(); sc != nil && (strings.HasPrefix(sc.String(), "(*sync.Mutex).") || strings.HasPrefix(sc.String(), "(*sync.RWMutex).")) {
					e.keys["X:held"] = true
				}
			case *ssa.UnOp:
				if t.Op == token.ARROW {
					e.keys["X:recvs"] = true
				}
			case *ssa.Send:
				e.keys["X:sends"] = true
			case *ssa.Select:
				for _, s := range t.States {
					if s.Dir == types.SendOnly {
						e.keys["X:sends"] = true
					}
				}
			case ssa.CallInstruction:
				if _, isGo := in.(*ssa.Go); isGo {
					continue
				}
				cc := t.Common()
				if cc.IsInvoke() {
					p.invokeEffects(cc, e)
					continue
				}
				switch f := cc.Value.(type) {
				case *ssa.Builtin:
					switch f.Name() {
					case "append", "copy":
						if len(cc.Args) > 0 {
							if sl, ok := cc.Args[0].Type().Underlying().(*types.Slice); ok {
								for _, l := range leaves(sl.Elem()) {
									e.keys["E:"+typeName(sl.Elem())+l.path] = true
								}
							}
						}
					case "delete":
						mt := cc.Args[0].Type().Underlying().(*types.Map)
						e.keys[mapPrefix(mt)] = true
					case "clear":
						e.top = true
					}
				case *ssa.Function:
					if f == fn {
						continue
					}
					if p.CalledGhost[funcKey(f)] {
						e.keys["X:called"] = true
					}
					if strings.HasPrefix(f.String(), "(*sync.Mutex).") || strings.HasPrefix(f.String(), "(*sync.RWMutex).") {
						e.keys["X:held"] = true
						e.keys["X:released"] = true
						// note: a callee that releases and re-acquires a lock lets other goroutines run; that interference is
						// modelled only inside the function being verified (see builtin.go), not in callee summaries
					}
					if c := p.Contracts[funcKey(f)]; c != nil && c.HasMod && c.usableAtCalls() {
						// declared (and checked) frame of the callee, relative to the actual arguments
						if ks, ok := p.modifiesKeys(c, f, cc.Args); ok {
							for _, k := range ks {
								e.keys[k] = true
							}
							continue
						}
					}
					e.add(p.effectsOf(f))
					p.externalWriteEffects(f, cc, e)
					if !p.inPackage(f) {
						// closures handed to an external (sort.Search, sort.Slice, time.AfterFunc...) may be run by it
						for _, a := range cc.Args {
							if mc, ok := a.(*ssa.MakeClosure); ok {
								if cf, ok := mc.Fn.(*ssa.Function); ok {
									e.add(p.effectsOf(cf))
								}
							}
						}
					}
				case *ssa.MakeClosure:
					if cf, ok := f.Fn.(*ssa.Function); ok {
						e.add(p.effectsOf(cf))
					} else {
						e.top = true
					}
				default:
					if !isUserFactoryType(p, cc.Value.Type()) {
						e.top = true
					}
				}
			}
		}
	}
	// anonymous functions defined here may be stored and run later; they are accounted where called.
}

func rootIsLocalAlloc(v ssa.Value) bool {
	for {
		switch t := v.(type) {
		case *ssa.FieldAddr:
			v = t.X
		case *ssa.IndexAddr:
			if _, ok := t.X.Type().Underlying().(*types.Pointer); ok {
				v = t.X
				continue
			}
			return false
		case *ssa.Alloc:
			return !t.Heap
		default:
			return false
		}
	}
}

// externalWriteEffects accounts for externals that write through their arguments.
func (p *Program) externalWriteEffects(f *ssa.Function, cc *ssa.CallCommon, e *effectSet) {
	if f.Pkg == nil || f.Pkg == p.SSA {
		return
	}
	name := f.String()
	switch {
	case strings.HasPrefix(name, "sync/atomic.") || strings.HasPrefix(name, "(*sync/atomic."):
		// atomic writes go through a pointer: the addressed field (or cell) is written
		m := f.Name()
		if strings.HasPrefix(m, "Load") || len(cc.Args) == 0 {
			return
		}
		pre := staticAddrPrefix(cc.Args[0])
		if pre == "?" || strings.HasPrefix(pre, "?") {
			e.top = true
			return
		}
		elemT := types.Type(nil)
		if pt, ok := cc.Args[0].Type().Underlying().(*types.Pointer); ok {
			elemT = pt.Elem()
		}
		if strings.HasPrefix(name, "(*sync/atomic.") {
			pre += ".v"
			if st0, ok := elemT.Underlying().(*types.Struct); ok {
				elemT = nil
				for i := 0; i < st0.NumFields(); i++ {
					if st0.Field(i).Name() == "v" {
						elemT = st0.Field(i).Type()
					}
				}
			}
		}
		e.keys[pre] = true
		if elemT != nil {
			for _, l := range leaves(elemT) {
				e.keys[pre+l.path] = true
			}
		}
	case strings.Contains(name, "encoding/binary") && strings.Contains(name, "Put"),
		strings.HasPrefix(name, "io.ReadFull"), strings.Contains(name, "rand.Read"), strings.Contains(name, "(*math/rand.Rand).Read"):
		e.keys["E:uint8"] = true
		e.keys["E:uint8"] = true
	case strings.HasPrefix(name, "sort.Search"):
		// pure binary search
	case strings.HasPrefix(name, "sort."), strings.HasPrefix(name, "slices.Sort"):
		for _, a := range cc.Args {
			if sl, ok := a.Type().Underlying().(*types.Slice); ok {
				for _, l := range leaves(sl.Elem()) {
					e.keys["E:"+typeName(sl.Elem())+l.path] = true
				}
				continue
			}
			if mi, ok := a.(*ssa.MakeInterface); ok {
				if sl, ok := mi.X.Type().Underlying().(*types.Slice); ok {
					for _, l := range leaves(sl.Elem()) {
						e.keys["E:"+typeName(sl.Elem())+l.path] = true
					}
					continue
				}
			}
			if _, ok := a.(*ssa.MakeClosure); ok {
				continue
			}
			if _, ok := a.Type().Underlying().(*types.Signature); ok {
				continue
			}
			e.top = true
		}
	}
}

func (p *Program) implementers(iface *types.Interface, method string) []*ssa.Function {
	var out []*ssa.Function
	for _, m := range p.SSA.Members {
		tn, ok := m.(*ssa.Type)
		if !ok {
			continue
		}
		for _, t := range []types.Type{tn.Type(), types.NewPointer(tn.Type())} {
			if _, isI := t.Underlying().(*types.Interface); isI {
				continue
			}
			if !types.Implements(t, iface) {
				continue
			}
			ms := p.Prog.MethodSets.MethodSet(t)
			sel := ms.Lookup(p.Pkg.Types, method)
			if sel == nil {
				continue
			}
			if f := p.Prog.MethodValue(sel); f != nil {
				out = append(out, f)
			}
			break
		}
	}
	sort.Slice(out, func(i, j int) bool { return out[i].String() < out[j].String() })
	return out
}

func ifaceOwnerPkg(recvT types.Type) string {
	if n, ok := recvT.(*types.Named); ok && n.Obj().Pkg() != nil {
		return n.Obj().Pkg().Path()
	}
	if a, ok := recvT.(*types.Alias); ok {
		return ifaceOwnerPkg(types.Unalias(a))
	}
	return ""
}

func (p *Program) invokeEffects(cc *ssa.CallCommon, e *effectSet) {
	rt := cc.Value.Type()
	owner := ifaceOwnerPkg(rt)
	iface, _ := rt.Underlying().(*types.Interface)
	if owner != "github.com/pion/sctp" {
		if owner == "" && iface != nil && cc.Method.Name() == "Error" {
			return // error.Error()
		}
		// external interfaces (logger, net.Conn, ...): assumed not to write SCTP state
		return
	}
	impls := p.implementers(iface, cc.Method.Name())
	if len(impls) == 0 {
		e.top = true
		return
	}
	for _, f := range impls {
		// wrapper functions for embedded promotion: unwrap by effects of the wrapper itself
		e.add(p.effectsOf(f))
	}
	// exported interfaces (stream schedulers) may be implemented by user code; such code cannot reach unexported
	// SCTP state except through the public API, which is not re-entrant here: assumed not to modify SCTP state
}

func ifaceExported(t types.Type) bool {
	if n, ok := t.(*types.Named); ok {
		return n.Obj().Exported()
	}
	return false
}

func (x *fnExec) applyEffects(st *State, eff *effectSet, why string, fn *ssa.Function, args []Val) {
	if eff.top {
		x.havocAll(st, why+" (callee effects unknown)")
		return
	}
	if len(eff.keys) == 0 {
		return
	}
	// rewrite for interior-pointer arguments
	extra := map[string]bool{}
	if fn != nil {
		for i, p := range fn.Params {
			if i >= len(args) || args[i].K != VPtr {
				continue
			}
			pt, ok := p.Type().Underlying().(*types.Pointer)
			if !ok {
				continue
			}
			canon := canonPrefix(pt.Elem())
			if args[i].Prefix != canon {
				for k := range eff.keys {
					if strings.HasPrefix(k, canon+".") || strings.HasPrefix(k, canon+"#") || k == canon {
						extra[args[i].Prefix+k[len(canon):]] = true
					}
				}
			}
		}
	}
	exact := map[string]bool{}
	var prefixes []string
	for _, m := range []map[string]bool{eff.keys, extra} {
		for k := range m {
			switch {
			case strings.HasPrefix(k, "M:"):
				prefixes = append(prefixes, k+"#")
			case k == "E:*":
				prefixes = append(prefixes, "E:")
			default:
				exact[k] = true
			}
		}
	}
	x.havocKeys(st, exact, prefixes)
}

// havocKeys replaces the given heap arrays (exact keys and key prefixes) by fresh ones.
func (x *fnExec) havocKeys(st *State, exact map[string]bool, prefixes []string) {
	x.epochN++
	tag := fmt.Sprintf("c%d", x.epochN)
	for hk, t := range st.heap {
		cov := exact[hk]
		for _, p := range prefixes {
			if strings.HasPrefix(hk, p) {
				cov = true
			}
		}
		if cov {
			st.heap[hk] = Sym(hk+"@"+tag, t.S)
		}
	}
	st.epoch = st.epoch.withOverride(exact, prefixes, tag)
}

// relocks reports whether fn contains an Unlock followed (in block order) by a Lock: a window for other goroutines.
func (p *Program) relocks(fn *ssa.Function) bool {
	unlocked := false
	for _, b := range fn.Blocks {
		for _, in := range b.Instrs {
			c, ok := in.(*ssa.Call)
			if !ok {
				continue
			}
			sc := c.Call.StaticCallee()
			if sc == nil {
				continue
			}
			s := sc.String()
			if !strings.HasPrefix(s, "(*sync.Mutex).") && !strings.HasPrefix(s, "(*sync.RWMutex).") {
				continue
			}
			switch sc.Name() {
			case "Unlock", "RUnlock":
				unlocked = true
			case "Lock", "RLock":
				if unlocked {
					return true
				}
			}
		}
	}
	return false
}

// explainTop prints why a function's effect set is unknown (debugging aid).
func (p *Program) explainTop(fn *ssa.Function, seen map[string]bool, ind string) {
	k := fn.String()
	if seen[k] {
		return
	}
	seen[k] = true
	for _, b := range fn.Blocks {
		for _, in := range b.Instrs {
			ci, ok := in.(ssa.CallInstruction)
			if !ok {
				continue
			}
			if _, isGo := in.(*ssa.Go); isGo {
				continue
			}
			cc := ci.Common()
			e := &effectSet{keys: map[string]bool{}}
			if cc.IsInvoke() {
				p.invokeEffects(cc, e)
				if e.top {
					fmt.Printf("%s%s: invoke %s.%s -> top\n", ind, fn.Name(), typeName(cc.Value.Type()), cc.Method.Name())
					if iface, ok := cc.Value.Type().Underlying().(*types.Interface); ok {
						for _, f := range p.implementers(iface, cc.Method.Name()) {
							if p.effectsOf(f).top {
								p.explainTop(f, seen, ind+"  ")
							}
						}
					}
				}
				continue
			}
			switch f := cc.Value.(type) {
			case *ssa.Function:
				if p.effectsOf(f).top {
					fmt.Printf("%s%s: call %s -> top\n", ind, fn.Name(), f.String())
					p.explainTop(f, seen, ind+"  ")
				}
			case *ssa.Builtin:
			case *ssa.MakeClosure:
				if cf, ok := f.Fn.(*ssa.Function); ok && p.effectsOf(cf).top {
					fmt.Printf("%s%s: closure %s -> top\n", ind, fn.Name(), cf.String())
					p.explainTop(cf, seen, ind+"  ")
				}
			default:
				fmt.Printf("%s%s: dynamic call %s -> top\n", ind, fn.Name(), cc.Value.String())
			}
		}
	}
}

var isNewRe = regexp.MustCompile(`isNew\((\w+)\)`)

// markFreshResults registers results a callee's contract declares isNew(...) as allocations made by the call,
// so that they are distinct from every object that existed before it.
func (x *fnExec) markFreshResults(c *Contract, fn *ssa.Function, rv Val) {
	res := fn.Signature.Results()
	for _, cl := range c.Ensures {
		if len(cl.Bound) > 0 || strings.Contains(cl.GoText, "implies(") {
			continue
		}
		for _, m := range isNewRe.FindAllStringSubmatch(cl.GoText, -1) {
			for i := 0; i < res.Len(); i++ {
				name := res.At(i).Name()
				if name == "" || name == "_" {
					name = "result"
					if res.Len() > 1 {
						name = fmt.Sprintf("result%d", i)
					}
				}
				if name != m[1] {
					continue
				}
				v := rv
				if res.Len() > 1 {
					v = rv.Fs[i]
				}
				switch v.K {
				case VSlice:
					x.allocs = append(x.allocs, allocRec{v.base(), x.seq})
				case VPtr:
					x.allocs = append(x.allocs, allocRec{v.Ref, x.seq})
				}
			}
		}
	}
}

// modifiesKeys maps a callee's declared modifies clause to heap keys at a call site with the given actual arguments
// (static address prefixes). It fails when a target is not of the form param.field[.field][[*]].
func (p *Program) modifiesKeys(c *Contract, f *ssa.Function, args []ssa.Value) ([]string, bool) {
	var out []string
	for _, m := range c.Modifies {
		if m == "*" {
			return nil, false
		}
		elems := false
		if strings.HasSuffix(m, "[*]") {
			elems = true
			m = strings.TrimSuffix(m, "[*]")
		}
		parts := strings.Split(m, ".")
		idx := -1
		for i, prm := range f.Params {
			if prm.Name() == parts[0] {
				idx = i
			}
		}
		if idx < 0 || idx >= len(args) || len(parts) < 2 {
			return nil, false
		}
		pt, ok := f.Params[idx].Type().Underlying().(*types.Pointer)
		if !ok {
			return nil, false
		}
		prefix := staticAddrPrefix(args[idx])
		if prefix == "?" {
			return nil, false
		}
		var cur types.Type = pt.Elem()
		okPath := true
		for i := 1; i < len(parts); i++ {
			st, isStruct := cur.Underlying().(*types.Struct)
			if !isStruct {
				okPath = false
				break
			}
			if parts[i] == "*" && i == len(parts)-1 {
				break
			}
			var fld *types.Var
			for j := 0; j < st.NumFields(); j++ {
				if st.Field(j).Name() == parts[i] {
					fld = st.Field(j)
				}
			}
			if fld == nil {
				okPath = false
				break
			}
			prefix += "." + fld.Name()
			cur = fld.Type()
			if i < len(parts)-1 {
				if _, isS := cur.Underlying().(*types.Struct); !isS {
					okPath = false // pointer hop: the static prefix is not known
					break
				}
			}
		}
		if !okPath {
			return nil, false
		}
		if elems {
			sl, isSl := cur.Underlying().(*types.Slice)
			if !isSl {
				return nil, false
			}
			for _, l := range leaves(sl.Elem()) {
				out = append(out, "E:"+typeName(sl.Elem())+l.path)
			}
			continue
		}
		for _, l := range leaves(cur) {
			out = append(out, prefix+l.path)
		}
	}
	return out, true
}

// objInvFor returns the object-invariant declaration that covers precondition label of method fn, if any.
func (p *Program) objInvFor(fn *ssa.Function, label string) *ObjInv {
	if fn.Signature.Recv() == nil {
		return nil
	}
	rt := fn.Signature.Recv().Type()
	if pt, ok := rt.(*types.Pointer); ok {
		rt = pt.Elem()
	}
	n, ok := rt.(*types.Named)
	if !ok {
		return nil
	}
	for _, oi := range p.ObjInvs {
		if oi.Type != n.Obj().Name() {
			continue
		}
		for _, pr := range oi.Preds {
			if strings.HasPrefix(label, pr+".") {
				return oi
			}
		}
	}
	return nil
}

// memberOf: fn is a method or a listed constructor of the type (the invariant may be broken inside those).
func (p *Program) memberOf(fn *ssa.Function, oi *ObjInv) bool {
	for fn.Parent() != nil {
		fn = fn.Parent()
	}
	k := funcKey(fn)
	if strings.HasPrefix(k, oi.Type+".") {
		return true
	}
	for _, c := range oi.Ctors {
		if c == k {
			return true
		}
	}
	return false
}

// receiverNonNil returns the receiver reference of a method call (nil if it cannot be identified).
func (x *fnExec) receiverNonNil(st *State, args []Val) *Term {
	if len(args) == 0 || args[0].K != VPtr {
		return nil
	}
	return Not(Eq(args[0].Ref, BVU(0, 64)))
}

// usableAtCalls: the interface of the contract (pre- and postconditions) is bound to the current code, so callers can
// still be checked against it even when clauses about the function's interior (loop invariants, at-assertions) have lost
// their anchors — in that case the function's own obligations are undecided, its callers' are not.
func (c *Contract) usableAtCalls() bool {
	if c.Fn == nil {
		return false
	}
	for _, cl := range c.Requires {
		if cl.Info == nil {
			return false
		}
	}
	for _, cl := range c.Ensures {
		if cl.Info == nil {
			return false
		}
	}
	return true
}

var derefsRecvMemo = map[*ssa.Function]bool{}
var derefsRecvMu sync.Mutex

// derefsReceiver: the method (or a closure it creates) takes the address of a field of a value of the receiver's type and
// never compares a value of that type with nil — i.e. it cannot be called on a nil receiver.
func derefsReceiver(fn *ssa.Function) bool {
	derefsRecvMu.Lock()
	defer derefsRecvMu.Unlock()
	if v, ok := derefsRecvMemo[fn]; ok {
		return v
	}
	res := false
	if len(fn.Params) > 0 && len(fn.Blocks) > 0 {
		rt := fn.Params[0].Type()
		if _, isPtr := rt.Underlying().(*types.Pointer); isPtr {
			deref, guarded := false, false
			var scan func(f *ssa.Function)
			scan = func(f *ssa.Function) {
				for _, b := range f.Blocks {
					for _, in := range b.Instrs {
						switch t := in.(type) {
						case *ssa.FieldAddr:
							if types.Identical(t.X.Type(), rt) {
								deref = true
							}
						case *ssa.BinOp:
							if (t.Op == token.EQL || t.Op == token.NEQ) && types.Identical(t.X.Type(), rt) {
								if c, ok := t.Y.(*ssa.Const); ok && c.IsNil() {
									guarded = true
								}
								if c, ok := t.X.(*ssa.Const); ok && c.IsNil() {
									guarded = true
								}
							}
						}
					}
				}
				for _, af := range f.AnonFuncs {
					scan(af)
				}
			}
			scan(fn)
			res = deref && !guarded
		}
	}
	derefsRecvMemo[fn] = res
	return res
}

// calledID: a stable 64-bit identifier of a callee key for the X:called ghost array (FNV-1a).
func calledID(key string) *Term {
	h := uint64(14695981039346656037)
	for i := 0; i < len(key); i++ {
		h ^= uint64(key[i])
		h *= 1099511628211
	}
	return BVU(h, 64)
}
