package main

// Replaying solver counterexamples against the real code through `go test -overlay`.

import (
	"encoding/json"
	"fmt"
	"go/types"
	"math/big"
	"os"
	"os/exec"
	"path/filepath"
	"regexp"
	"strings"
)

func regexpMatch(pat, s string) (bool, error) {
	re, err := regexp.Compile(pat)
	if err != nil {
		return false, err
	}
	return re.MatchString(s), nil
}

func modelBig(v string) (*big.Int, bool) {
	v = strings.TrimSpace(v)
	switch {
	case strings.HasPrefix(v, "#x"):
		n, ok := new(big.Int).SetString(v[2:], 16)
		return n, ok
	case strings.HasPrefix(v, "#b"):
		n, ok := new(big.Int).SetString(v[2:], 2)
		return n, ok
	case strings.HasPrefix(v, "(_ bv"):
		f := strings.Fields(v[5:])
		n, ok := new(big.Int).SetString(f[0], 10)
		return n, ok
	}
	return nil, false
}

func fpModelBits(v string) (uint64, bool) {
	// (fp #b0 #b10000000000 #x0000000000000)
	re := regexp.MustCompile(`\(fp\s+(#[bx][0-9a-fA-F]+)\s+(#[bx][0-9a-fA-F]+)\s+(#[bx][0-9a-fA-F]+)\)`)
	m := re.FindStringSubmatch(v)
	if m == nil {
		switch {
		case strings.Contains(v, "+zero"):
			return 0, true
		case strings.Contains(v, "-zero"):
			return 1 << 63, true
		case strings.Contains(v, "+oo"):
			return 0x7ff0000000000000, true
		case strings.Contains(v, "-oo"):
			return 0xfff0000000000000, true
		case strings.Contains(v, "NaN"):
			return 0x7ff8000000000000, true
		}
		return 0, false
	}
	s, ok1 := modelBig(m[1])
	e, ok2 := modelBig(m[2])
	f, ok3 := modelBig(m[3])
	if !ok1 || !ok2 || !ok3 {
		return 0, false
	}
	return s.Uint64()<<63 | e.Uint64()<<52 | f.Uint64(), true
}

func goLiteral(t types.Type, v string) (string, bool) {
	b, ok := t.Underlying().(*types.Basic)
	if !ok {
		return "", false
	}
	ts := types.TypeString(t, func(*types.Package) string { return "" })
	switch {
	case b.Info()&types.IsBoolean != 0:
		if strings.TrimSpace(v) == "true" || strings.TrimSpace(v) == "false" {
			return ts + "(" + strings.TrimSpace(v) + ")", true
		}
	case b.Info()&types.IsInteger != 0:
		n, ok := modelBig(v)
		if !ok {
			return "", false
		}
		if b.Info()&types.IsUnsigned == 0 {
			n = toSigned(n, sortOfBasic(b).W)
		}
		return ts + "(" + n.String() + ")", true
	case b.Info()&types.IsFloat != 0:
		bits, ok := fpModelBits(v)
		if !ok {
			return "", false
		}
		return fmt.Sprintf("%s(math.Float64frombits(0x%x))", ts, bits), true
	}
	return "", false
}

// replaySource builds an in-package test that calls the real function on the model's inputs and evaluates the failed clause.
func replaySource(p *Program, r *OblResult) (string, string) {
	c := p.Contracts[r.Func]
	if c == nil || c.Fn == nil || r.Model == nil {
		return "", "no model"
	}
	if r.Kind != "post" {
		return "", "replay is generated for postconditions of scalar functions only (R1); this obligation is of kind " + r.Kind
	}
	sig := c.Fn.Signature
	if sig.Recv() != nil {
		return "", "method on a heap structure: no automatic pre-state construction (R2/R3)"
	}
	var cl *Clause
	for _, e := range c.Ensures {
		if c.Key+":post#"+e.Label == r.Name {
			cl = e
		}
	}
	if cl == nil {
		return "", "clause not found"
	}
	var sb strings.Builder
	sb.WriteString("//go:build verif\n\npackage sctp\n\nimport (\n\t\"math\"\n\t\"testing\"\n)\n\nvar _ = math.Float64frombits\n\n")
	sb.WriteString("func TestVerifReplay(t *testing.T) {\n")
	var args []string
	for i := 0; i < sig.Params().Len(); i++ {
		pv := sig.Params().At(i)
		mv, ok := r.Model[smtName("in_"+pv.Name())]
		if !ok {
			mv = "#x0"
			if b, isB := pv.Type().Underlying().(*types.Basic); isB && b.Info()&types.IsBoolean != 0 {
				mv = "false"
			}
			if isFloat(pv.Type()) {
				mv = "(_ +zero 11 53)"
			}
		}
		lit, ok := goLiteral(pv.Type(), mv)
		if !ok {
			return "", "parameter " + pv.Name() + " is not a scalar"
		}
		fmt.Fprintf(&sb, "\t%s := %s\n", pv.Name(), lit)
		args = append(args, pv.Name())
	}
	for _, b := range cl.Bound {
		var val string
		for k, v := range r.Model {
			if strings.HasPrefix(k, smtName("sk_"+b.Name)+"!") {
				val = v
			}
		}
		if b.Obj == nil || val == "" {
			return "", "no witness for bound variable " + b.Name
		}
		lit, ok := goLiteral(b.Obj.Type(), val)
		if !ok {
			return "", "bound variable " + b.Name + " is not a scalar"
		}
		fmt.Fprintf(&sb, "\t%s := %s\n", b.Name, lit)
	}
	res := sig.Results()
	var lhs []string
	for i := 0; i < res.Len(); i++ {
		n := res.At(i).Name()
		if n == "" || n == "_" {
			n = "result"
			if res.Len() > 1 {
				n = fmt.Sprintf("result%d", i)
			}
		}
		lhs = append(lhs, n)
	}
	call := c.Fn.Name() + "(" + strings.Join(args, ", ") + ")"
	if len(lhs) > 0 {
		fmt.Fprintf(&sb, "\t%s := %s\n", strings.Join(lhs, ", "), call)
		for _, n := range lhs {
			fmt.Fprintf(&sb, "\t_ = %s\n", n)
		}
	} else {
		fmt.Fprintf(&sb, "\t%s\n", call)
	}
	for _, a := range args {
		fmt.Fprintf(&sb, "\t_ = %s\n", a)
	}
	fmt.Fprintf(&sb, "\tif !(%s) {\n\t\tt.Fatalf(\"REPRODUCED: %s violated on the real code\")\n\t}\n}\n", cl.GoText, strings.ReplaceAll(r.Name, `"`, `'`))
	return sb.String(), ""
}

func runReplay(repo, src string) (bool, string) {
	dir, err := os.MkdirTemp("", "sctpvc-replay-")
	if err != nil {
		return false, err.Error()
	}
	defer os.RemoveAll(dir)
	tf := filepath.Join(dir, "zz_verif_replay_test.go")
	os.WriteFile(tf, []byte(src), 0o644)
	ov, _ := json.Marshal(map[string]any{"Replace": map[string]string{filepath.Join(repo, "zz_verif_replay_test.go"): tf}})
	ovf := filepath.Join(dir, "ov.json")
	os.WriteFile(ovf, ov, 0o644)
	cmd := exec.Command("go", "test", "-tags", "verif", "-overlay", ovf, "-vet=off", "-count=1", "-timeout", "60s", "-run", "^TestVerifReplay$", ".")
	cmd.Dir = repo
	cmd.Env = append(os.Environ(), "GOFLAGS=-mod=mod", "GOPROXY=off")
	out, _ := cmd.CombinedOutput()
	return strings.Contains(string(out), "REPRODUCED"), truncate(string(out), 3000)
}

func tryReplay(p *Program, repo string, r *OblResult) (bool, map[string]any) {
	how := map[string]any{}
	if r.Status != "refuted" {
		how["note"] = "the verifier produced no model (status " + r.Status + "): obligation passed on the pinned tree and no longer discharges"
		return false, how
	}
	src, why := replaySource(p, r)
	if src == "" {
		// R2: functions whose non-scalar inputs are byte slices (the decoders)
		src2, why2 := replayBytesSource(p, r)
		if src2 == "" {
			// R3: method on a struct whose fields are scalars and slices of scalars (receive window, RTO manager, ...)
			src3, why3 := replayStructSource(p, r)
			if src3 == "" {
				how["note"] = "counterexample not replayed: " + why + "; " + why2 + "; " + why3
				return false, how
			}
			src2 = src3
		}
		src = src2
	}
	ok, out := runReplay(repo, src)
	how["test_source"] = src
	how["go_test_output"] = out
	how["cmd"] = "go test -tags verif -overlay <zz_verif_replay_test.go> -vet=off -run ^TestVerifReplay$ . (in /repo)"
	return ok, how
}

func cmdReplay(args []string) int {
	if len(args) < 1 {
		fmt.Println("usage: sctpvc replay <replay.json>")
		return 2
	}
	data, err := os.ReadFile(args[0])
	if err != nil {
		fmt.Println(err)
		return 2
	}
	var rec map[string]any
	if err := json.Unmarshal(data, &rec); err != nil {
		fmt.Println(err)
		return 2
	}
	fmt.Printf("obligation: %v\nstatus: %v\nsite: %v\n", rec["obligation"], rec["status"], rec["fail_site"])
	rp, _ := rec["replay"].(map[string]any)
	src, _ := rp["test_source"].(string)
	if src == "" {
		fmt.Println("no executable replay recorded:", rp["note"])
		fmt.Println("model:", rec["model"])
		return 1
	}
	ok, out := runReplay("/repo", src)
	fmt.Println(out)
	if ok {
		fmt.Println("REPRODUCED on the current /repo")
		return 1
	}
	fmt.Println("not reproduced on the current /repo")
	return 0
}


var ghostCallRe = regexp.MustCompile(`\b(old|isNew|typeIs|ifaceIs|sameSlice|unchanged|sends|held|visited|has|rangeIdx)\(`)

// replayBytesSource (R2): the function takes scalars and []byte slices, the receiver (if any) is a pointer to a struct
// that the function fills in. A second solver run on the refuted query asks for a counterexample with every byte slice
// at most 64 bytes long and for the bytes themselves; the real function is then called on those bytes with a zero
// receiver. A safety obligation is reproduced when the real code panics; a postcondition without ghost vocabulary is
// evaluated on the result.
func replayBytesSource(p *Program, r *OblResult) (string, string) {
	c := p.Contracts[r.Func]
	if c == nil || c.Fn == nil || r.FailSMT == "" {
		return "", "no query kept for a minimising run"
	}
	if r.Kind != "safe" && r.Kind != "post" {
		return "", "byte-slice replay covers safety obligations and postconditions only"
	}
	sig := c.Fn.Signature
	var recvDecl, callPrefix string
	if rv := sig.Recv(); rv != nil {
		pt, ok := rv.Type().(*types.Pointer)
		if !ok {
			return "", "value receiver"
		}
		if _, ok := pt.Elem().Underlying().(*types.Struct); !ok {
			return "", "receiver is not a struct"
		}
		name := rv.Name()
		if name == "" || name == "_" {
			name = "recv"
		}
		recvDecl = fmt.Sprintf("\t%s := &%s{}\n", name, types.TypeString(pt.Elem(), func(*types.Package) string { return "" }))
		callPrefix = name + "."
	}
	var extra strings.Builder
	var get []string
	type bs struct{ name string }
	var slices []bs
	hasBytes := strings.Contains(r.FailSMT, "(declare-fun E_uint8@pre ")
	for i := 0; i < sig.Params().Len(); i++ {
		pv := sig.Params().At(i)
		if sl, ok := pv.Type().Underlying().(*types.Slice); ok {
			if b, isB := sl.Elem().Underlying().(*types.Basic); !isB || b.Kind() != types.Uint8 {
				return "", "parameter " + pv.Name() + " is a slice of non-bytes"
			}
			n := smtName("in_" + pv.Name())
			if !strings.Contains(r.FailSMT, "(declare-fun "+n+"_len ") {
				slices = append(slices, bs{pv.Name()})
				continue
			}
			fmt.Fprintf(&extra, "(assert (bvule %s_len (_ bv64 64)))\n", n)
			get = append(get, n+"_len")
			if hasBytes && strings.Contains(r.FailSMT, "(declare-fun "+n+"_base ") && strings.Contains(r.FailSMT, "(declare-fun "+n+"_off ") {
				for k := 0; k < 64; k++ {
					fmt.Fprintf(&extra, "(define-fun rb_%s_%d () (_ BitVec 8) (select (select E_uint8@pre %s_base) (bvadd %s_off (_ bv%d 64))))\n", n, k, n, n, k)
					get = append(get, fmt.Sprintf("rb_%s_%d", n, k))
				}
			}
			slices = append(slices, bs{pv.Name()})
			continue
		}
		if _, ok := goLiteral(pv.Type(), "#x0"); !ok {
			if _, ok2 := goLiteral(pv.Type(), "false"); !ok2 {
				return "", "parameter " + pv.Name() + " is neither a scalar nor a byte slice"
			}
		}
		if strings.Contains(r.FailSMT, "(declare-fun "+smtName("in_"+pv.Name())+" ") {
			get = append(get, smtName("in_"+pv.Name()))
		}
	}
	if len(slices) == 0 {
		return "", "no byte-slice parameter"
	}
	res := solve("replay-min", r.FailSMT+extra.String(), get, 30, false)
	if res.Status != "sat" {
		return "", "no counterexample with byte slices of at most 64 bytes (" + res.Status + ")"
	}
	var sb strings.Builder
	sb.WriteString("//go:build verif\n\npackage sctp\n\nimport (\n\t\"math\"\n\t\"testing\"\n)\n\nvar _ = math.Float64frombits\n\n")
	sb.WriteString("func TestVerifReplay(t *testing.T) {\n")
	if r.Kind == "safe" {
		sb.WriteString("\tdefer func() {\n\t\tif e := recover(); e != nil {\n\t\t\tt.Fatalf(\"REPRODUCED: the real code panics on this input: %v\", e)\n\t\t}\n\t}()\n")
	}
	var args []string
	for i := 0; i < sig.Params().Len(); i++ {
		pv := sig.Params().At(i)
		if _, ok := pv.Type().Underlying().(*types.Slice); ok {
			n := smtName("in_" + pv.Name())
			ln := 0
			if v, ok := res.Model[n+"_len"]; ok {
				if b, ok := modelBig(v); ok {
					ln = int(b.Int64())
				}
			}
			var bytes []string
			for k := 0; k < ln && k < 64; k++ {
				bv := 0
				if v, ok := res.Model[fmt.Sprintf("rb_%s_%d", n, k)]; ok {
					if b, ok := modelBig(v); ok {
						bv = int(b.Int64())
					}
				}
				bytes = append(bytes, fmt.Sprintf("0x%02x", bv))
			}
			fmt.Fprintf(&sb, "\t%s := []byte{%s}\n", pv.Name(), strings.Join(bytes, ", "))
			args = append(args, pv.Name())
			continue
		}
		mv, ok := res.Model[smtName("in_"+pv.Name())]
		if !ok {
			mv = "#x0"
			if b, isB := pv.Type().Underlying().(*types.Basic); isB && b.Info()&types.IsBoolean != 0 {
				mv = "false"
			}
			if isFloat(pv.Type()) {
				mv = "(_ +zero 11 53)"
			}
		}
		lit, ok := goLiteral(pv.Type(), mv)
		if !ok {
			return "", "parameter " + pv.Name() + " has no literal form"
		}
		fmt.Fprintf(&sb, "\t%s := %s\n", pv.Name(), lit)
		args = append(args, pv.Name())
	}
	sb.WriteString(recvDecl)
	rs := sig.Results()
	var lhs []string
	for i := 0; i < rs.Len(); i++ {
		n := "result"
		if rs.Len() > 1 {
			n = fmt.Sprintf("result%d", i)
		}
		lhs = append(lhs, n)
	}
	call := callPrefix + c.Fn.Name() + "(" + strings.Join(args, ", ") + ")"
	if len(lhs) > 0 {
		fmt.Fprintf(&sb, "\t%s := %s\n", strings.Join(lhs, ", "), call)
		for _, n := range lhs {
			fmt.Fprintf(&sb, "\t_ = %s\n", n)
		}
	} else {
		fmt.Fprintf(&sb, "\t%s\n", call)
	}
	for _, a := range args {
		fmt.Fprintf(&sb, "\t_ = %s\n", a)
	}
	if r.Kind == "post" {
		var cl *Clause
		for _, e := range c.Ensures {
			if c.Key+":post#"+e.Label == r.Name {
				cl = e
			}
		}
		if cl == nil || len(cl.Bound) > 0 || ghostCallRe.MatchString(cl.GoText) {
			return "", "postcondition uses ghost vocabulary or quantifiers: not executable"
		}
		fmt.Fprintf(&sb, "\tif !(%s) {\n\t\tt.Fatalf(\"REPRODUCED: %s violated on the real code\")\n\t}\n", cl.GoText, strings.ReplaceAll(r.Name, `"`, `'`))
	}
	sb.WriteString("}\n")
	return sb.String(), ""
}


// rewriteOld replaces old(e) by e with the receiver name replaced by the name of its pre-state copy.
func rewriteOld(text, recv, pre string) (string, bool) {
	for {
		i := strings.Index(text, "old(")
		if i < 0 {
			return text, true
		}
		if i > 0 && (text[i-1] == '_' || (text[i-1] >= 'a' && text[i-1] <= 'z') || (text[i-1] >= 'A' && text[i-1] <= 'Z')) {
			return "", false
		}
		depth, j := 0, i+3
		for ; j < len(text); j++ {
			if text[j] == '(' {
				depth++
			} else if text[j] == ')' {
				depth--
				if depth == 0 {
					break
				}
			}
		}
		if j >= len(text) {
			return "", false
		}
		inner := text[i+4 : j]
		re := regexp.MustCompile(`\b` + regexp.QuoteMeta(recv) + `\b`)
		inner = re.ReplaceAllString(inner, pre)
		text = text[:i] + "(" + inner + ")" + text[j+1:]
	}
}

// replayStructSource (R3): a method whose receiver points to a struct made of scalars and slices of scalars, with scalar
// parameters. A second solver run asks for a counterexample with slices of at most 64 elements and for the field values;
// the test builds that object, keeps a deep copy as the pre-state (old(e) is e evaluated on the copy), calls the real
// method and evaluates the failed postcondition (bound variables take the solver's witnesses). Safety obligations are
// reproduced by a panic.
func replayStructSource(p *Program, r *OblResult) (string, string) {
	c := p.Contracts[r.Func]
	if c == nil || c.Fn == nil || r.FailSMT == "" {
		return "", "no query kept for a minimising run"
	}
	if r.Kind != "safe" && r.Kind != "post" {
		return "", "struct replay covers safety obligations and postconditions only"
	}
	sig := c.Fn.Signature
	rv := sig.Recv()
	if rv == nil {
		return "", "no receiver"
	}
	pt, ok := rv.Type().(*types.Pointer)
	if !ok {
		return "", "value receiver"
	}
	st, ok := pt.Elem().Underlying().(*types.Struct)
	if !ok {
		return "", "receiver is not a struct"
	}
	tname := types.TypeString(pt.Elem(), func(*types.Package) string { return "" })
	rname := rv.Name()
	if rname == "" || rname == "_" {
		return "", "unnamed receiver"
	}
	declared := func(sym string) bool { return strings.Contains(r.FailSMT, "(declare-fun "+sym+" ") }
	recvSym := smtName("in_" + rname)
	var extra strings.Builder
	var get []string
	type fld struct {
		name  string
		ty    types.Type
		slice bool
		elem  types.Type
	}
	var flds []fld
	for i := 0; i < st.NumFields(); i++ {
		f := st.Field(i)
		switch u := f.Type().Underlying().(type) {
		case *types.Basic:
			if u.Info()&types.IsString != 0 {
				continue
			}
			arr := smtName("F:"+tname+"."+f.Name()) + "@pre"
			if declared(arr) && declared(recvSym) {
				srt := sortOfBasic(u)
				fmt.Fprintf(&extra, "(define-fun rf_%s () %s (select %s %s))\n", f.Name(), srt.str, arr, recvSym)
				get = append(get, "rf_"+f.Name())
			}
			flds = append(flds, fld{f.Name(), f.Type(), false, nil})
		case *types.Slice:
			eb, isB := u.Elem().Underlying().(*types.Basic)
			if !isB || eb.Info()&types.IsString != 0 {
				continue // left nil
			}
			pre := smtName("F:" + tname + "." + f.Name())
			if declared(pre+"_len@pre") && declared(recvSym) {
				fmt.Fprintf(&extra, "(define-fun rf_%s_len () (_ BitVec 64) (select %s_len@pre %s))\n", f.Name(), pre, recvSym)
				fmt.Fprintf(&extra, "(assert (bvule rf_%s_len (_ bv64 64)))\n", f.Name())
				get = append(get, "rf_"+f.Name()+"_len")
				earr := smtName("E:"+typeName(u.Elem())) + "@pre"
				if declared(earr) && declared(pre+"_base@pre") && declared(pre+"_off@pre") {
					srt := sortOfBasic(eb)
					for k := 0; k < 64; k++ {
						fmt.Fprintf(&extra, "(define-fun rf_%s_%d () %s (select (select %s (select %s_base@pre %s)) (bvadd (select %s_off@pre %s) (_ bv%d 64))))\n",
							f.Name(), k, srt.str, earr, pre, recvSym, pre, recvSym, k)
						get = append(get, fmt.Sprintf("rf_%s_%d", f.Name(), k))
					}
				}
			}
			flds = append(flds, fld{f.Name(), f.Type(), true, u.Elem()})
		}
	}
	for i := 0; i < sig.Params().Len(); i++ {
		pv := sig.Params().At(i)
		if _, isB := pv.Type().Underlying().(*types.Basic); !isB {
			return "", "parameter " + pv.Name() + " is not a scalar"
		}
		if declared(smtName("in_" + pv.Name())) {
			get = append(get, smtName("in_"+pv.Name()))
		}
	}
	var cl *Clause
	if r.Kind == "post" {
		for _, e := range c.Ensures {
			if c.Key+":post#"+e.Label == r.Name {
				cl = e
			}
		}
		if cl == nil {
			return "", "clause not found"
		}
		for _, b := range cl.Bound {
			if b.Obj == nil {
				return "", "unbound quantified variable"
			}
		}
	}
	// witnesses of the bound variables are skolem constants of the refuted query
	skRe := regexp.MustCompile(`\(declare-fun (sk_[A-Za-z0-9_]+![0-9]+) `)
	for _, m := range skRe.FindAllStringSubmatch(r.FailSMT, -1) {
		get = append(get, m[1])
	}
	res := solve("replay-min", r.FailSMT+extra.String(), get, 30, false)
	if res.Status != "sat" {
		return "", "no counterexample with slices of at most 64 elements (" + res.Status + ")"
	}
	lit := func(t types.Type, key string) (string, bool) {
		mv, ok := res.Model[key]
		if !ok {
			mv = "#x0"
			if b, isB := t.Underlying().(*types.Basic); isB && b.Info()&types.IsBoolean != 0 {
				mv = "false"
			}
			if isFloat(t) {
				mv = "(_ +zero 11 53)"
			}
		}
		return goLiteral(t, mv)
	}
	var sb strings.Builder
	sb.WriteString("//go:build verif\n\npackage sctp\n\nimport (\n\t\"math\"\n\t\"testing\"\n)\n\nvar _ = math.Float64frombits\n\n")
	sb.WriteString("func TestVerifReplay(t *testing.T) {\n")
	if r.Kind == "safe" {
		sb.WriteString("\tdefer func() {\n\t\tif e := recover(); e != nil {\n\t\t\tt.Fatalf(\"REPRODUCED: the real code panics on this input: %v\", e)\n\t\t}\n\t}()\n")
	}
	build := func(name string) {
		fmt.Fprintf(&sb, "\t%s := &%s{}\n", name, tname)
		for _, f := range flds {
			if !f.slice {
				l, ok := lit(f.ty, "rf_"+f.name)
				if ok {
					fmt.Fprintf(&sb, "\t%s.%s = %s\n", name, f.name, l)
				}
				continue
			}
			n := 0
			if v, ok := res.Model["rf_"+f.name+"_len"]; ok {
				if b, ok := modelBig(v); ok {
					n = int(b.Int64())
				}
			}
			var els []string
			for k := 0; k < n && k < 64; k++ {
				l, ok := lit(f.elem, fmt.Sprintf("rf_%s_%d", f.name, k))
				if !ok {
					l = "0"
				}
				els = append(els, l)
			}
			fmt.Fprintf(&sb, "\t%s.%s = %s{%s}\n", name, f.name, types.TypeString(f.ty, func(*types.Package) string { return "" }), strings.Join(els, ", "))
		}
	}
	build(rname)
	pre := rname + "AtEntry"
	build(pre)
	fmt.Fprintf(&sb, "\t_ = %s\n", pre)
	var args []string
	for i := 0; i < sig.Params().Len(); i++ {
		pv := sig.Params().At(i)
		l, ok := lit(pv.Type(), smtName("in_"+pv.Name()))
		if !ok {
			return "", "parameter " + pv.Name() + " has no literal form"
		}
		fmt.Fprintf(&sb, "\t%s := %s\n\t_ = %s\n", pv.Name(), l, pv.Name())
		args = append(args, pv.Name())
	}
	rs := sig.Results()
	var lhs []string
	for i := 0; i < rs.Len(); i++ {
		n := "result"
		if rs.Len() > 1 {
			n = fmt.Sprintf("result%d", i)
		}
		lhs = append(lhs, n)
	}
	call := rname + "." + c.Fn.Name() + "(" + strings.Join(args, ", ") + ")"
	if len(lhs) > 0 {
		fmt.Fprintf(&sb, "\t%s := %s\n", strings.Join(lhs, ", "), call)
		for _, n := range lhs {
			fmt.Fprintf(&sb, "\t_ = %s\n", n)
		}
	} else {
		fmt.Fprintf(&sb, "\t%s\n", call)
	}
	if r.Kind == "post" {
		text, ok := rewriteOld(cl.GoText, rname, pre)
		if !ok || regexp.MustCompile(`\b(isNew|typeIs|ifaceIs|sameSlice|unchanged|sends|recvs|held|visited|has|rangeIdx|iterStart)\(`).MatchString(text) {
			return "", "postcondition uses ghost vocabulary that cannot be executed"
		}
		for _, b := range cl.Bound {
			var val string
			for k, v := range res.Model {
				if strings.HasPrefix(k, smtName("sk_"+b.Name)+"!") {
					val = v
				}
			}
			if val == "" {
				return "", "no witness for bound variable " + b.Name
			}
			l, ok := goLiteral(b.Obj.Type(), val)
			if !ok {
				return "", "bound variable " + b.Name + " is not a scalar"
			}
			fmt.Fprintf(&sb, "\t%s := %s\n\t_ = %s\n", b.Name, l, b.Name)
		}
		fmt.Fprintf(&sb, "\tif !(%s) {\n\t\tt.Fatalf(\"REPRODUCED: %s violated on the real code\")\n\t}\n", text, strings.ReplaceAll(r.Name, `"`, `'`))
	}
	sb.WriteString("}\n")
	return sb.String(), ""
}
