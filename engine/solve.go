package main

import (
	"bytes"
	"context"
	"fmt"
	"os"
	"os/exec"
	"path/filepath"
	"strings"
	"sync"
	"time"
)

type SolveResult struct {
	Status  string // "unsat", "sat", "unknown", "timeout", "error"
	Backend string
	Secs    float64
	Output  string            // raw output of the deciding solver (or all, when undecided)
	Model   map[string]string // symbol -> value text (only for sat, when requested)
	All     map[string]string // backend -> status
}

type solverSpec struct {
	name string
	argv func(file string, timeoutS int) []string
}

var solvers = []solverSpec{
	{"z3-new", func(f string, t int) []string { return []string{"z3-new", fmt.Sprintf("-T:%d", t), f} }},
	{"z3", func(f string, t int) []string { return []string{"z3", fmt.Sprintf("-T:%d", t), f} }},
	{"cvc5", func(f string, t int) []string {
		return []string{"cvc5", "--produce-models", fmt.Sprintf("--tlimit=%d", t*1000), f}
	}},
}

var workDir string
var workDirOnce sync.Once

func initWorkDir() {
	workDirOnce.Do(func() {
		d, err := os.MkdirTemp("", "sctpvc-")
		if err != nil {
			panic(err)
		}
		workDir = d
	})
}

func cleanupWorkDir() {
	if workDir != "" && os.Getenv("SCTPVC_KEEP") == "" {
		os.RemoveAll(workDir)
	}
}

// solve races the solvers on the given SMT-LIB text. If wantAll is set, waits for every solver
// (thorough tier) and reports disagreement as "error".
func solve(name, smt string, getValues []string, timeoutS int, wantAll bool) SolveResult {
	initWorkDir()
	base := filepath.Join(workDir, smtName(strings.ReplaceAll(name, "/", "_")))
	res := SolveResult{All: map[string]string{}}
	type one struct {
		backend, status, out string
		secs                 float64
	}
	ctx, cancel := context.WithCancel(context.Background())
	defer cancel()
	ch := make(chan one, len(solvers))
	var wg sync.WaitGroup
	for _, sp := range solvers {
		sp := sp
		wg.Add(1)
		go func() {
			defer wg.Done()
			file := base + "." + sp.name + ".smt2"
			var sb strings.Builder
			if sp.name == "cvc5" {
				sb.WriteString("(set-option :produce-models true)\n")
			}
			sb.WriteString("(set-logic ALL)\n")
			sb.WriteString(smt)
			sb.WriteString("(check-sat)\n")
			if len(getValues) > 0 {
				sb.WriteString("(get-value (" + strings.Join(getValues, " ") + "))\n")
			}
			if err := os.WriteFile(file, []byte(sb.String()), 0o644); err != nil {
				ch <- one{sp.name, "error", err.Error(), 0}
				return
			}
			argv := sp.argv(file, timeoutS)
			cctx, ccancel := context.WithTimeout(ctx, time.Duration(timeoutS+5)*time.Second)
			defer ccancel()
			cmd := exec.CommandContext(cctx, argv[0], argv[1:]...)
			var out bytes.Buffer
			cmd.Stdout = &out
			cmd.Stderr = &out
			t0 := time.Now()
			_ = cmd.Run()
			secs := time.Since(t0).Seconds()
			text := out.String()
			first := strings.TrimSpace(strings.SplitN(text, "\n", 2)[0])
			st := "unknown"
			switch {
			case first == "unsat":
				st = "unsat"
			case first == "sat":
				st = "sat"
			case first == "timeout" || cctx.Err() != nil:
				st = "timeout"
			case strings.HasPrefix(first, "(error") || strings.Contains(first, "rror"):
				st = "error"
			}
			for _, bad := range []string{"unknown constant", "is not declared", "Parse Error", "invalid ", "unknown sort", "unknown function", "Sort mismatch", "sort mismatch", "expects"} {
				if strings.Contains(text, bad) && strings.Contains(text, "(error") {
					st = "error"
				}
			}
			if os.Getenv("SCTPVC_KEEP") == "" {
				os.Remove(file)
			}
			ch <- one{sp.name, st, text, secs}
		}()
	}
	go func() { wg.Wait(); close(ch) }()
	var outs []string
	for o := range ch {
		res.All[o.backend] = o.status
		outs = append(outs, fmt.Sprintf("--- %s (%.2fs): %s", o.backend, o.secs, truncate(o.out, 2000)))
		if o.status == "unsat" || o.status == "sat" {
			if res.Status == "" {
				res.Status = o.status
				res.Backend = o.backend
				res.Secs = o.secs
				res.Output = o.out
				if o.status == "sat" && len(getValues) > 0 {
					res.Model = parseGetValue(o.out)
				}
				if !wantAll {
					cancel()
				}
			} else if res.Status != o.status {
				res.Status = "error"
				res.Output = "SOLVER DISAGREEMENT\n" + strings.Join(outs, "\n")
			}
		}
	}
	if res.Status == "" {
		res.Status = "unknown"
		allTO := true
		for _, s := range res.All {
			if s != "timeout" {
				allTO = false
			}
		}
		if allTO {
			res.Status = "timeout"
		}
		res.Output = strings.Join(outs, "\n")
	}
	return res
}

func truncate(s string, n int) string {
	if len(s) > n {
		return s[:n] + "…"
	}
	return s
}

// parseGetValue parses "((a #x01) (b true) ...)" very loosely into symbol -> value text.
func parseGetValue(out string) map[string]string {
	m := map[string]string{}
	i := strings.Index(out, "((")
	if i < 0 {
		return m
	}
	s := out[i+1:]
	// iterate over top-level (sym value) pairs
	depth := 0
	start := -1
	for j := 0; j < len(s); j++ {
		switch s[j] {
		case '(':
			if depth == 0 {
				start = j
			}
			depth++
		case ')':
			depth--
			if depth == 0 && start >= 0 {
				pair := s[start+1 : j]
				k := strings.IndexAny(pair, " \n\t")
				if k > 0 {
					m[pair[:k]] = strings.TrimSpace(pair[k+1:])
				}
				start = -1
			}
			if depth < 0 {
				return m
			}
		}
	}
	return m
}
