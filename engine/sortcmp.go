package main

// Library sorts driven by a comparator closure (sort.Slice, sort.SliceStable, slices.SortFunc, slices.SortStableFunc).
//
// The library documents a precondition on the comparator (a strict weak ordering / a consistent three-way comparison) and
// promises an ordered slice only under it. The model therefore
//   - emits a safety obligation "sortcmp" at the call: for all positions i, j of the slice the comparator is asymmetric
//     (less(i,j) excludes less(j,i); cmp(x,y) < 0 exactly when cmp(y,x) > 0, and cmp(x,x) == 0), with the comparator's real
//     body evaluated at symbolic positions;
//   - havocs the elements (done by the caller of these helpers) and then assumes, as a quantified fact, that no adjacent
//     pair of the result is out of order according to that same body (what the library guarantees under its precondition;
//     transitivity of the comparator on the values in use is the library's remaining, unchecked, precondition).

import (
	"fmt"
	"go/types"
	"strings"

	"golang.org/x/tools/go/ssa"
)

type sortCmp struct {
	mc      *ssa.MakeClosure
	fn      *ssa.Function
	byIndex bool // less(i, j int) bool over positions; otherwise cmp(x, y E) int over elements
	slice   Val
	elem    types.Type
}

// sortComparator recognises the comparator closure and the slice of a library sort call.
func (x *fnExec) sortComparator(fr *frame, ci ssa.CallInstruction, name string) *sortCmp {
	cc := ci.Common()
	sc := &sortCmp{}
	for _, a := range cc.Args {
		v := a
		if ct, ok := v.(*ssa.ChangeType); ok {
			v = ct.X
		}
		switch t := v.(type) {
		case *ssa.MakeClosure:
			if f, ok := t.Fn.(*ssa.Function); ok && len(findLoops(f)) == 0 {
				sc.mc, sc.fn = t, f
			}
		case *ssa.Function:
			if len(t.Blocks) > 0 && len(t.FreeVars) == 0 && len(findLoops(t)) == 0 {
				sc.fn = t
			}
		case *ssa.MakeInterface:
			if sl, ok := t.X.Type().Underlying().(*types.Slice); ok {
				sc.slice, sc.elem = x.val(fr, t.X), sl.Elem()
			}
		default:
			if sl, ok := a.Type().Underlying().(*types.Slice); ok && sc.elem == nil {
				sc.slice, sc.elem = x.val(fr, a), sl.Elem()
			}
		}
	}
	if sc.fn == nil || sc.elem == nil || sc.slice.K != VSlice {
		return nil
	}
	sig := sc.fn.Signature
	if sig.Params().Len() != 2 || sig.Results().Len() != 1 {
		return nil
	}
	switch {
	case strings.HasPrefix(name, "sort.Slice"):
		if b, ok := sig.Results().At(0).Type().Underlying().(*types.Basic); !ok || b.Kind() != types.Bool {
			return nil
		}
		sc.byIndex = true
	case strings.HasPrefix(name, "slices.Sort"):
		if b, ok := sig.Results().At(0).Type().Underlying().(*types.Basic); !ok || b.Kind() != types.Int {
			return nil
		}
	default:
		return nil
	}
	return sc
}

// applyCmp evaluates the comparator body at positions i and j (64-bit terms) of the slice in state st.
func (x *fnExec) applyCmp(fr *frame, st *State, sc *sortCmp, i, j *Term) (Val, bool) {
	s := st.clone()
	var args []Val
	if sc.byIndex {
		args = []Val{{K: VScalar, T: i, Ty: types.Typ[types.Int]}, {K: VScalar, T: j, Ty: types.Typ[types.Int]}}
	} else {
		for _, k := range []*Term{i, j} {
			p := Val{K: VPtr, Prefix: "E:" + typeName(sc.elem), Ref: sc.slice.base(), Idx: BVBin("bvadd", sc.slice.off(), k), Ty: types.NewPointer(sc.elem)}
			args = append(args, x.load(s, p, sc.elem))
		}
	}
	nf := x.newFrame(sc.fn, args, s, fr.depth+1)
	nf.inline = true
	nf.safety = false
	for k, fv := range sc.fn.FreeVars {
		nf.env[fv] = x.val(fr, sc.mc.Bindings[k])
	}
	rets := x.runFunc(nf, s)
	if len(rets) == 0 {
		return Val{}, false
	}
	v := rets[len(rets)-1].val
	for k := len(rets) - 2; k >= 0; k-- {
		v = iteVal(rets[k].cond, rets[k].val, v)
	}
	if v.K != VScalar {
		return Val{}, false
	}
	return v, true
}

// sortCmpCheck emits the asymmetry obligation on the comparator (before the elements are permuted).
func (x *fnExec) sortCmpCheck(fr *frame, st *State, ci ssa.CallInstruction, sc *sortCmp) {
	if !fr.safety {
		return
	}
	x.seq++
	i := Fresh(fmt.Sprintf("sort_i_%d", x.seq), BV(64))
	j := Fresh(fmt.Sprintf("sort_j_%d", x.seq), BV(64))
	ln := sc.slice.len()
	rng := And(BVCmp("bvult", i, ln), BVCmp("bvult", j, ln))
	r1, ok1 := x.applyCmp(fr, st, sc, i, j)
	r2, ok2 := x.applyCmp(fr, st, sc, j, i)
	if !ok1 || !ok2 {
		return
	}
	var goal *Term
	if sc.byIndex {
		goal = Not(And(r1.T, r2.T))
	} else {
		z := BVU(0, 64)
		neg := BVCmp("bvslt", r1.T, z)
		pos := BVCmp("bvsgt", r2.T, z)
		goal = And(Or(Not(neg), pos), Or(Not(pos), neg))
		goal = And(goal, Or(Not(Eq(i, j)), Eq(r1.T, z)))
	}
	goal = Or(Not(rng), goal)
	o := x.obligation(st, x.safetyName("sortcmp"), "safe", "library sort called with a comparator that is not a consistent ordering at "+x.P.Fset.Position(ci.Pos()).String()+" in "+funcKey(fr.fn), nil, goal, nil, "")
	if o != nil {
		o.skolems = append(o.skolems, i, j)
	}
}

// sortedFact assumes that no adjacent pair of the permuted slice is out of order according to the comparator body.
func (x *fnExec) sortedFact(fr *frame, st *State, sc *sortCmp) {
	x.seq++
	k := BVar(fmt.Sprintf("sortk_%d", x.seq), BV(64))
	k1 := BVBin("bvadd", k, BVU(1, 64))
	nf := len(x.facts)
	gen0 := TT.gen
	r, ok := x.applyCmp(fr, st, sc, k1, k)
	// results of contracted callees inside the body (e.g. sna32LT) come back as a fresh constant plus a defining equation;
	// with a bound position the constant has to be replaced by its definition
	if ok {
		sub := map[*Term]*Term{}
		rest := false
		for _, f := range x.facts[nf:] {
			d := f.t
			if d.Op == "=>" && len(d.Args) == 2 {
				// definition under the path condition of the call: the constant is used on that path only
				d = d.Args[1]
			}
			if d.Op == "=" && len(d.Args) == 2 && d.Args[0].Op == "const" && definedAfter(d.Args[0].Name, gen0) {
				sub[d.Args[0]] = Subst(d.Args[1], sub)
				continue
			}
			x.note("  side fact not a definition: %s", f.t.String())
			rest = true
		}
		if rest {
			ok = false
		} else if len(sub) > 0 {
			r.T = Subst(r.T, sub)
		}
	}
	x.facts = x.facts[:nf]
	if !ok {
		x.note("sort comparator %s: ordering of the result not assumed", funcKey(sc.fn))
		return
	}
	ln := sc.slice.len()
	inr := And(BVCmp("bvult", k, ln), BVCmp("bvult", k1, ln), BVCmp("bvult", k, k1))
	var ordered *Term
	if sc.byIndex {
		ordered = Not(r.T)
	} else {
		ordered = BVCmp("bvsge", r.T, BVU(0, 64))
	}
	x.assumed["library sort: the result is ordered by its comparator (the comparator's transitivity is the library's unchecked precondition)"] = true
	x.qfacts = append(x.qfacts, &QFact{seq: x.next(), pc: st.pc, vars: []*Term{k}, body: Or(Not(inr), ordered), origin: "sorted-by-comparator"})
}

// definedAfter reports whether the constant name was generated by Fresh after generation counter gen0.
func definedAfter(name string, gen0 int) bool {
	i := strings.LastIndex(name, "!")
	if i < 0 {
		return false
	}
	var g int
	if _, err := fmt.Sscanf(name[i+1:], "%d", &g); err != nil {
		return false
	}
	return g > gen0
}
