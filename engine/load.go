package main

// Loading /repo (tag verif), building SSA, parsing the //@ contract comments.

import (
	"fmt"
	"go/ast"
	"go/parser"
	"go/token"
	"go/types"
	"os"
	"path/filepath"
	"regexp"
	"sort"
	"strconv"
	"strings"

	"golang.org/x/tools/go/packages"
	"golang.org/x/tools/go/ssa"
	"golang.org/x/tools/go/ssa/ssautil"
)

type BoundVar struct {
	Name string
	Type string // Go type text
	Obj  *types.Var
}

type Clause struct {
	Kind   string // requires, ensures, invariant, assert, decreases, assume
	Label  string
	Tags   []string // clause-level tags (nil = inherit)
	Src    string
	File   string
	Line   int
	Bound  []BoundVar
	GoText string // Go expression text after ==>/forall rewriting
	Expr   ast.Expr
	// set by binding
	Info  *types.Info
	Lit   *ast.FuncLit
	Err   error
	Fresh bool // "ensures fresh(result)" style clause
}

type LoopSpec struct {
	Ordinal    int
	Invariants []*Clause
	Decreases  *Clause
	Complete   []string // tags: the loop is left only through its header (every element of a range is visited)
	AtEnd      []*Clause // asserted at the end of every iteration (each back edge), over the body's variables
	AtEntry    []*Clause // asserted when the loop is entered (not an invariant)
}

type AtCall struct {
	Callee  string
	Ordinal int // 0 = every site; k = only the k-th site in source order
	Clause  *Clause
}

type Contract struct {
	Key      string
	File     string
	Line     int
	Requires []*Clause
	Ensures  []*Clause
	Assumes  []*Clause // assumed at function entry (trusted; reported)
	Modifies []string
	HasMod   bool
	Tags     []string
	Loops    map[int]*LoopSpec
	AtCalls  []*AtCall
	AtStores []*AtCall // Callee holds the field key "Type.field"
	AtReturns []*Clause
	Inline   bool
	ProofOnly map[string]bool
	ProofUses map[string][]string // obligation label -> labels of the quantified contract clauses its proof may use
	Interference bool // re-acquiring a lock released earlier in the function havocs the heap (other goroutines ran)
	Trusted  bool // body not verified; contract assumed at call sites (reported)
	Safety   []string // tags for which implicit safety obligations are claimed
	Serial   []string // tags for the serial-number comparison audit
	NoVerify bool
	Fn       *ssa.Function
	Decl     *ast.FuncDecl
	BindErr  []string
}

// WriterSpec: the listed functions are the only ones allowed to store directly to the field.
type WriterSpec struct {
	Field   string
	Tags    []string
	Allowed []string
	File    string
	Line    int
}

// ObjInv declares the listed predicates to be the object invariant of a struct type: the type's fields are touched only
// by its own methods and constructors (checked), every one of those re-establishes the predicates (checked), and
// therefore code outside the type may rely on them for any object of the type it holds.
type ObjInv struct {
	Type  string
	Preds []string
	Ctors []string
	Tags  []string
	File  string
	Line  int
}

// NonNil declares pointer/map/chan/func fields of a struct type that are set, to a non-nil value, only by the listed
// constructors (checked by a package scan, obligation nonnil#Type); a load of such a field then yields a non-nil value.
type NonNil struct {
	Type   string
	Fields []string
	Ctors  []string
	Tags   []string
	File   string
	Line   int
}

// Pred is a named list of clauses (a representation invariant) expanded textually where it is used.
type Pred struct {
	Name    string
	Params  []string
	Clauses []predClause
}

type predClause struct {
	Label string
	Src   string
}

type Program struct {
	Fset      *token.FileSet
	Pkg       *packages.Package
	SSA       *ssa.Package
	Prog      *ssa.Program
	Contracts map[string]*Contract
	Order     []string
	FuncByKey map[string]*ssa.Function
	DeclByKey map[string]*ast.FuncDecl
	LoadErrs  []string
	Preds     map[string]*Pred
	Writers   []*WriterSpec
	ObjInvs   []*ObjInv
	NonNils   []*NonNil
	nonNilKeys map[string]*NonNil
	SerialAudit []string // tags of the package-wide serial-comparison audit
	CalledGhost map[string]bool // callees named in a called("...") ghost: their calls are counted in the state
	typeTags  map[string]int
	tagTypes  map[int]types.Type
	effects   map[*ssa.Function]*effectSet
	impls     map[string][]*ssa.Function
}

func funcKey(fn *ssa.Function) string {
	if fn == nil {
		return "?"
	}
	name := fn.Name()
	if fn.Signature != nil && fn.Signature.Recv() != nil {
		rt := fn.Signature.Recv().Type()
		if p, ok := rt.(*types.Pointer); ok {
			rt = p.Elem()
		}
		rn := types.TypeString(rt, func(*types.Package) string { return "" })
		return rn + "." + name
	}
	if fn.Parent() != nil {
		return funcKey(fn.Parent()) + "$" + name
	}
	return name
}

func typesFuncKey(f *types.Func) string {
	sig := f.Type().(*types.Signature)
	if sig.Recv() != nil {
		rt := sig.Recv().Type()
		if p, ok := rt.(*types.Pointer); ok {
			rt = p.Elem()
		}
		rn := types.TypeString(rt, func(*types.Package) string { return "" })
		// strip type parameters for generic receivers: queue[T] -> queue
		return rn + "." + f.Name()
	}
	return f.Name()
}

func loadProgram(dir string) (*Program, error) {
	cfg := &packages.Config{
		Mode:       packages.LoadAllSyntax,
		Dir:        dir,
		BuildFlags: []string{"-tags=verif"},
		Tests:      false,
		Env:        append(os.Environ(), "GOFLAGS=-mod=mod", "GOPROXY=off"),
	}
	pkgs, err := packages.Load(cfg, ".")
	if err != nil {
		return nil, err
	}
	if len(pkgs) != 1 {
		return nil, fmt.Errorf("expected one package, got %d", len(pkgs))
	}
	p := &Program{Fset: pkgs[0].Fset, Pkg: pkgs[0], Contracts: map[string]*Contract{},
		FuncByKey: map[string]*ssa.Function{}, DeclByKey: map[string]*ast.FuncDecl{}, typeTags: map[string]int{}}
	for _, e := range pkgs[0].Errors {
		p.LoadErrs = append(p.LoadErrs, e.Error())
	}
	if len(p.LoadErrs) > 0 {
		return p, fmt.Errorf("package does not type-check: %s", strings.Join(p.LoadErrs, "; "))
	}
	prog, spkgs := ssautil.AllPackages(pkgs, ssa.InstantiateGenerics|ssa.GlobalDebug)
	prog.Build()
	p.Prog = prog
	p.SSA = spkgs[0]
	// index functions
	for fn := range ssautil.AllFunctions(prog) {
		if fn.Pkg != p.SSA && !(fn.Pkg == nil && fn.Origin() != nil && fn.Origin().Pkg == p.SSA) {
			continue
		}
		if fn.Synthetic != "" && !strings.Contains(fn.Synthetic, "instance of") {
			continue
		}
		k := funcKey(fn)
		if old, ok := p.FuncByKey[k]; ok && old != fn {
			// prefer non-generic-origin instance
			if len(fn.TypeArgs()) == 0 && len(old.TypeArgs()) > 0 {
				continue
			}
		}
		p.FuncByKey[k] = fn
	}
	for _, f := range pkgs[0].Syntax {
		for _, d := range f.Decls {
			fd, ok := d.(*ast.FuncDecl)
			if !ok {
				continue
			}
			obj, _ := pkgs[0].TypesInfo.Defs[fd.Name].(*types.Func)
			if obj == nil {
				continue
			}
			p.DeclByKey[typesFuncKey(obj)] = fd
		}
	}
	// parse contracts from every file whose name starts with verif_
	for i, f := range pkgs[0].Syntax {
		fname := pkgs[0].CompiledGoFiles[i]
		if !strings.HasPrefix(filepath.Base(fname), "verif_") {
			continue
		}
		if err := p.parseContractFile(fname, f); err != nil {
			return p, err
		}
	}
	p.bindAll()
	return p, nil
}

var clauseRe = regexp.MustCompile(`^(requires|ensures|assume|invariant|decreases|assert)(#[A-Za-z0-9_.\-]+)?(\{[A-Z0-9, ]+\})?\s+(.*)$`)

func (p *Program) parseContractFile(fname string, f *ast.File) error {
	type line struct {
		text string
		ln   int
	}
	var lines []line
	for _, cg := range f.Comments {
		for _, c := range cg.List {
			if !strings.HasPrefix(c.Text, "//@") {
				continue
			}
			t := strings.TrimSpace(c.Text[3:])
			if t == "" {
				continue
			}
			lines = append(lines, line{t, p.Fset.Position(c.Pos()).Line})
		}
	}
	// join continuation lines: a line is a continuation unless it starts with a keyword
	kw := regexp.MustCompile(`^(func|requires|ensures|assume|modifies|tags|loop|at|inline|trusted|safety|serialaudit|auditserial|interference|noverify|pred|clause|writers|proof|objinv|nonnil)\b`)
	var joined []line
	for _, l := range lines {
		if kw.MatchString(l.text) || len(joined) == 0 {
			joined = append(joined, l)
		} else {
			joined[len(joined)-1].text += " " + l.text
		}
	}
	var cur *Contract
	var curPred *Pred
	if p.Preds == nil {
		p.Preds = map[string]*Pred{}
	}
	if p.CalledGhost == nil {
		p.CalledGhost = map[string]bool{}
	}
	for _, l := range joined {
		for _, m := range calledGhostRe.FindAllStringSubmatch(l.text, -1) {
			p.CalledGhost[m[1]] = true
		}
		fields := strings.Fields(l.text)
		head := fields[0]
		rest := strings.TrimSpace(strings.TrimPrefix(l.text, head))
		if i := strings.IndexAny(head, "#{"); i > 0 {
			head = head[:i]
		}
		bad := func(msg string) error { return fmt.Errorf("%s:%d: %s: %q", fname, l.ln, msg, l.text) }
		if head == "auditserial" {
			// package-level: serialaudit{C16,C01} [allow: site, site]
			m := regexp.MustCompile(`^auditserial(\{[A-Z0-9, ]+\})?\s*(.*)$`).FindStringSubmatch(l.text)
			for _, t := range strings.Split(strings.Trim(m[1], "{}"), ",") {
				if t = strings.TrimSpace(t); t != "" {
					p.SerialAudit = append(p.SerialAudit, t)
				}
			}
			continue
		}
		if head == "nonnil" {
			// nonnil{TAGS} Type : field1 field2 ; constructors f1 f2
			m := regexp.MustCompile(`^nonnil(\{[A-Z0-9, ]+\})?\s+(\w+)\s*:\s*([\w ]+);\s*constructors\s+([\w. ]+)$`).FindStringSubmatch(l.text)
			if m == nil {
				return bad("nonnil{TAGS} Type : field... ; constructors f...")
			}
			nn := &NonNil{Type: m[2], Fields: strings.Fields(m[3]), Ctors: strings.Fields(m[4]), File: fname, Line: l.ln}
			for _, t := range strings.Split(strings.Trim(m[1], "{}"), ",") {
				if t = strings.TrimSpace(t); t != "" {
					nn.Tags = append(nn.Tags, t)
				}
			}
			p.NonNils = append(p.NonNils, nn)
			if p.nonNilKeys == nil {
				p.nonNilKeys = map[string]*NonNil{}
			}
			for _, f := range nn.Fields {
				p.nonNilKeys["F:"+nn.Type+"."+f] = nn
			}
			cur, curPred = nil, nil
			continue
		}
		if head == "objinv" {
			// objinv{TAGS} Type : pred1 pred2 ; constructors f1 f2
			m := regexp.MustCompile(`^objinv(\{[A-Z0-9, ]+\})?\s+(\w+)\s*:\s*([\w ]+);\s*constructors\s+([\w. ]+)$`).FindStringSubmatch(l.text)
			if m == nil {
				return bad("objinv{TAGS} Type : pred... ; constructors f...")
			}
			oi := &ObjInv{Type: m[2], Preds: strings.Fields(m[3]), Ctors: strings.Fields(m[4]), File: fname, Line: l.ln}
			for _, t := range strings.Split(strings.Trim(m[1], "{}"), ",") {
				if t = strings.TrimSpace(t); t != "" {
					oi.Tags = append(oi.Tags, t)
				}
			}
			p.ObjInvs = append(p.ObjInvs, oi)
			cur, curPred = nil, nil
			continue
		}
		if head == "writers" {
			// writers{C13} Type.field : f1, f2, ...
			m := regexp.MustCompile(`^writers(\{[A-Z0-9, ]+\})?\s+([\w.]+)\s*:\s*(.*)$`).FindStringSubmatch(l.text)
			if m == nil {
				return bad("writers{TAGS} Type.field : f1, f2")
			}
			ws := &WriterSpec{Field: m[2], File: fname, Line: l.ln}
			for _, t := range strings.Split(strings.Trim(m[1], "{}"), ",") {
				if t = strings.TrimSpace(t); t != "" {
					ws.Tags = append(ws.Tags, t)
				}
			}
			for _, f := range strings.Split(m[3], ",") {
				if f = strings.TrimSpace(f); f != "" {
					ws.Allowed = append(ws.Allowed, f)
				}
			}
			p.Writers = append(p.Writers, ws)
			cur, curPred = nil, nil
			continue
		}
		if head == "pred" {
			// pred name(a, b)
			m := regexp.MustCompile(`^(\w+)\(([^)]*)\)$`).FindStringSubmatch(strings.TrimSpace(rest))
			if m == nil {
				return bad("pred name(params)")
			}
			curPred = &Pred{Name: m[1]}
			for _, a := range strings.Split(m[2], ",") {
				if a = strings.TrimSpace(a); a != "" {
					curPred.Params = append(curPred.Params, strings.Fields(a)[0])
				}
			}
			p.Preds[curPred.Name] = curPred
			cur = nil
			continue
		}
		if head == "clause" {
			if curPred == nil {
				return bad("clause outside pred")
			}
			m := regexp.MustCompile(`^clause(#[A-Za-z0-9_.\-]+)?\s+(.*)$`).FindStringSubmatch(l.text)
			if m == nil {
				return bad("malformed pred clause")
			}
			curPred.Clauses = append(curPred.Clauses, predClause{strings.TrimPrefix(m[1], "#"), m[2]})
			continue
		}
		if head == "func" {
			curPred = nil
			key := strings.TrimSpace(rest)
			if c, ok := p.Contracts[key]; ok {
				cur = c
			} else {
				cur = &Contract{Key: key, File: fname, Line: l.ln, Loops: map[int]*LoopSpec{}}
				p.Contracts[key] = cur
				p.Order = append(p.Order, key)
			}
			continue
		}
		if cur == nil {
			return bad("clause outside func block")
		}
		mkClause := func(text string) (*Clause, error) {
			m := clauseRe.FindStringSubmatch(text)
			if m == nil {
				return nil, bad("malformed clause")
			}
			cl := &Clause{Kind: m[1], Label: strings.TrimPrefix(m[2], "#"), Src: m[4], File: fname, Line: l.ln}
			if m[3] != "" {
				for _, t := range strings.Split(strings.Trim(m[3], "{}"), ",") {
					cl.Tags = append(cl.Tags, strings.TrimSpace(t))
				}
			}
			if cl.Label == "" {
				cl.Label = fmt.Sprintf("L%d", l.ln)
			}
			if err := cl.rewrite(); err != nil {
				return nil, bad(err.Error())
			}
			return cl, nil
		}
		switch head {
		case "requires", "ensures", "assume":
			for _, txt := range p.expandPred(l.text) {
				cl, err := mkClause(txt)
				if err != nil {
					return err
				}
				switch head {
				case "requires":
					cur.Requires = append(cur.Requires, cl)
				case "ensures":
					cur.Ensures = append(cur.Ensures, cl)
				case "assume":
					cur.Assumes = append(cur.Assumes, cl)
				}
			}
		case "modifies":
			cur.HasMod = true
			for _, m := range splitTop(rest, ',') {
				m = strings.TrimSpace(m)
				if m != "" && m != "nothing" {
					cur.Modifies = append(cur.Modifies, m)
				}
			}
		case "tags":
			cur.Tags = append(cur.Tags, fields[1:]...)
		case "safety":
			cur.Safety = append(cur.Safety, fields[1:]...)
		case "serialaudit":
			cur.Serial = append(cur.Serial, fields[1:]...)
		case "proof":
			// proof <label> uses <label>... : the quantified contract clauses (invariants, preconditions, lemmas) offered
			// to the solver for the obligations with that label; fewer hypotheses, never more (sound)
			if len(fields) < 3 || (fields[2] != "uses" && fields[2] != "only") {
				return bad("proof <label> uses|only <label>...")
			}
			if cur.ProofUses == nil {
				cur.ProofUses = map[string][]string{}
				cur.ProofOnly = map[string]bool{}
			}
			cur.ProofUses[fields[1]] = append(cur.ProofUses[fields[1]], fields[3:]...)
			if fields[2] == "only" {
				// "only" also withholds the quantifier-free contract clauses that are not listed
				cur.ProofOnly[fields[1]] = true
			}
		case "inline":
			cur.Inline = true
		case "interference":
			cur.Interference = true
		case "trusted":
			cur.Trusted = true
		case "noverify":
			cur.NoVerify = true
		case "loop":
			if len(fields) < 3 {
				return bad("loop N invariant|decreases expr")
			}
			n, err := strconv.Atoi(fields[1])
			if err != nil {
				return bad("loop ordinal")
			}
			sub := strings.TrimSpace(strings.TrimPrefix(strings.TrimSpace(strings.TrimPrefix(rest, fields[1])), ""))
			ls := cur.Loops[n]
			if ls == nil {
				ls = &LoopSpec{Ordinal: n}
				cur.Loops[n] = ls
			}
			if strings.HasPrefix(sub, "complete") {
				// loop N complete{TAGS}
				tg := strings.Trim(strings.TrimPrefix(sub, "complete"), "{} ")
				for _, t := range strings.Split(tg, ",") {
					if t = strings.TrimSpace(t); t != "" {
						ls.Complete = append(ls.Complete, t)
					}
				}
				if len(ls.Complete) == 0 {
					ls.Complete = []string{"-"}
				}
				continue
			}
			atEnd, atEntry := false, false
			if strings.HasPrefix(sub, "atend ") {
				atEnd = true
				sub = strings.TrimSpace(strings.TrimPrefix(sub, "atend "))
			}
			if strings.HasPrefix(sub, "atentry ") {
				atEntry = true
				sub = strings.TrimSpace(strings.TrimPrefix(sub, "atentry "))
			}
			for _, txt := range p.expandPred(sub) {
				cl, err := mkClause(txt)
				if err != nil {
					return err
				}
				if atEnd {
					ls.AtEnd = append(ls.AtEnd, cl)
					continue
				}
				if atEntry {
					ls.AtEntry = append(ls.AtEntry, cl)
					continue
				}
				if cl.Kind == "decreases" {
					ls.Decreases = cl
				} else {
					ls.Invariants = append(ls.Invariants, cl)
				}
			}
		case "at":
			// at call <callee> assert#label expr   |   at store <Type.field> assert#label expr
			if len(fields) >= 3 && fields[1] == "return" {
				// at return assert#label expr  (locals of the function are visible; result / resultN name the values returned)
				cl, err := mkClause(strings.TrimSpace(l.text[strings.Index(l.text, "return")+len("return"):]))
				if err != nil {
					return err
				}
				cur.AtReturns = append(cur.AtReturns, cl)
				continue
			}
			if len(fields) < 5 || (fields[1] != "call" && fields[1] != "store" && fields[1] != "mapupdate") {
				return bad("at call|store|mapupdate <target> assert#label expr")
			}
			callee := fields[2]
			idx := strings.Index(l.text, callee) + len(callee)
			ordinal := 0
			if k := strings.LastIndex(callee, "@"); k > 0 {
				if n, err := strconv.Atoi(callee[k+1:]); err == nil {
					ordinal = n
					callee = callee[:k]
				}
			}
			cl, err := mkClause(strings.TrimSpace(l.text[idx:]))
			if err != nil {
				return err
			}
			if fields[1] == "mapupdate" {
				cur.AtStores = append(cur.AtStores, &AtCall{Callee: "map:" + callee, Ordinal: ordinal, Clause: cl})
			} else if fields[1] == "store" {
				cur.AtStores = append(cur.AtStores, &AtCall{Callee: callee, Ordinal: ordinal, Clause: cl})
			} else {
				cur.AtCalls = append(cur.AtCalls, &AtCall{Callee: callee, Ordinal: ordinal, Clause: cl})
			}
		default:
			return bad("unknown clause keyword")
		}
	}
	return nil
}

var predUseRe = regexp.MustCompile(`^(requires|ensures|assume|invariant)(#[A-Za-z0-9_.\-]+)?(\{[A-Z0-9, ]+\})?\s+(\w+)\((.*)\)$`)

var predGuardRe = regexp.MustCompile(`^(requires|ensures|assume|invariant)(#[A-Za-z0-9_.\-]+)?(\{[A-Z0-9, ]+\})?\s+(.*\S)\s*==>\s*(\w+)\(([^()]*)\)$`)

// expandPred expands "requires pred(args)" into one clause per pred clause (textual substitution of whole identifiers).
func (p *Program) expandPred(text string) []string {
	m := predUseRe.FindStringSubmatch(strings.TrimSpace(text))
	guard := ""
	if gm := predGuardRe.FindStringSubmatch(strings.TrimSpace(text)); gm != nil && p.Preds[gm[5]] != nil {
		// "<guard> ==> pred(args)": every clause of the predicate under the guard
		guard = gm[4] + " ==> "
		m = []string{gm[0], gm[1], gm[2], gm[3], gm[5], gm[6]}
	}
	if m == nil {
		return []string{text}
	}
	pr := p.Preds[m[4]]
	if pr == nil {
		return []string{text}
	}
	args := splitTop(m[5], ',')
	if len(args) != len(pr.Params) {
		return []string{text}
	}
	var out []string
	for _, c := range pr.Clauses {
		body := c.Src
		for i, prm := range pr.Params {
			re := regexp.MustCompile(`\b` + regexp.QuoteMeta(prm) + `\b`)
			body = re.ReplaceAllString(body, "("+strings.TrimSpace(args[i])+")")
		}
		label := strings.TrimPrefix(m[2], "#")
		if label != "" {
			label += "."
		}
		label += pr.Name + "." + c.Label
		out = append(out, m[1]+"#"+label+m[3]+" "+guard+body)
	}
	return out
}

func splitTop(s string, sep byte) []string {
	var out []string
	depth := 0
	start := 0
	for i := 0; i < len(s); i++ {
		switch s[i] {
		case '(', '[', '{':
			depth++
		case ')', ']', '}':
			depth--
		default:
			if s[i] == sep && depth == 0 {
				out = append(out, s[start:i])
				start = i + 1
			}
		}
	}
	out = append(out, s[start:])
	return out
}

// rewrite turns "g ==> forall x T :: body" into bound variables plus a plain Go expression using implies().
func (cl *Clause) rewrite() error {
	txt, bound, err := rewriteImplies(cl.Src, true)
	if err != nil {
		return err
	}
	cl.Bound = bound
	cl.GoText = txt
	return nil
}

func rewriteImplies(s string, top bool) (string, []BoundVar, error) {
	// split at depth-0 "==>"
	var parts []string
	depth := 0
	start := 0
	for i := 0; i < len(s); i++ {
		switch s[i] {
		case '(', '[', '{':
			depth++
		case ')', ']', '}':
			depth--
		case '=':
			if depth == 0 && strings.HasPrefix(s[i:], "==>") {
				parts = append(parts, s[start:i])
				start = i + 3
				i += 2
			}
		}
	}
	parts = append(parts, s[start:])
	var bound []BoundVar
	for i, part := range parts {
		part = strings.TrimSpace(part)
		if strings.HasPrefix(part, "forall ") {
			if !top {
				return "", nil, fmt.Errorf("forall is only allowed in prenex position of a clause")
			}
			j := strings.Index(part, "::")
			if j < 0 {
				return "", nil, fmt.Errorf("forall without ::")
			}
			for _, v := range splitTop(part[len("forall "):j], ',') {
				fs := strings.Fields(strings.TrimSpace(v))
				if len(fs) < 2 {
					return "", nil, fmt.Errorf("bad bound variable %q", v)
				}
				bound = append(bound, BoundVar{Name: fs[0], Type: strings.Join(fs[1:], " ")})
			}
			part = strings.TrimSpace(part[j+2:])
			// the rest of this part may itself contain ==> at depth 0? no: we split already.
		}
		// recurse into parenthesised groups
		var sb strings.Builder
		d := 0
		gstart := -1
		for k := 0; k < len(part); k++ {
			c := part[k]
			if c == '(' {
				if d == 0 {
					gstart = k
				}
				d++
			} else if c == ')' {
				d--
				if d == 0 && gstart >= 0 {
					inner := part[gstart+1 : k]
					if strings.Contains(inner, "==>") {
						r, _, err := rewriteImplies(inner, false)
						if err != nil {
							return "", nil, err
						}
						sb.WriteString("(" + r + ")")
					} else {
						sb.WriteString(part[gstart : k+1])
					}
					gstart = -1
					continue
				}
			}
			if d == 0 {
				sb.WriteByte(c)
			}
		}
		parts[i] = sb.String()
	}
	out := parts[len(parts)-1]
	for i := len(parts) - 2; i >= 0; i-- {
		out = "implies(" + parts[i] + ", " + out + ")"
	}
	return out, bound, nil
}

// ---------- binding ----------

func (p *Program) bindAll() {
	for _, key := range p.Order {
		c := p.Contracts[key]
		fn := p.FuncByKey[key]
		if fn == nil {
			c.BindErr = append(c.BindErr, "function not found: "+key)
			continue
		}
		c.Fn = fn
		c.Decl = p.DeclByKey[key]
		if c.Decl == nil && fn.Origin() != nil {
			c.Decl = p.DeclByKey[funcKey(fn.Origin())]
		}
		if c.Decl == nil {
			if fd, ok := fn.Syntax().(*ast.FuncDecl); ok {
				c.Decl = fd
			}
		}
		if c.Decl == nil || c.Decl.Body == nil {
			c.BindErr = append(c.BindErr, "no source for "+key)
			continue
		}
		pos := c.Decl.Body.Rbrace
		for _, cl := range c.Requires {
			p.bindClause(c, cl, pos, false)
		}
		for _, cl := range c.Assumes {
			p.bindClause(c, cl, pos, false)
		}
		for _, cl := range c.Ensures {
			p.bindClause(c, cl, pos, true)
		}
		loops := loopStmts(c.Decl)
		if len(loops) == 0 && len(c.Loops) > 0 {
			// the function no longer has any loop: clauses about loops constrain nothing, and the remaining obligations
			// (pre/postconditions of straight-line code) need no invariant — they are decided as they stand
			c.Loops = map[int]*LoopSpec{}
		}
		for n, ls := range c.Loops {
			if n < 1 || n > len(loops) {
				c.BindErr = append(c.BindErr, fmt.Sprintf("loop %d not found (function has %d loops)", n, len(loops)))
				continue
			}
			lpos := loopBodyPos(loops[n-1])
			for _, cl := range ls.Invariants {
				p.bindClause(c, cl, lpos, false)
			}
			for _, cl := range ls.AtEnd {
				cl.Kind = "invariant"
				p.bindClause(c, cl, lpos, false)
			}
			for _, cl := range ls.AtEntry {
				cl.Kind = "invariant"
				p.bindClause(c, cl, lpos, false)
			}
			if ls.Decreases != nil {
				p.bindClause(c, ls.Decreases, lpos, false)
			}
		}
		// at-call clauses are bound per call site lazily (needs position of the call)
	}
}

func loopStmts(fd *ast.FuncDecl) []ast.Stmt {
	var out []ast.Stmt
	ast.Inspect(fd.Body, func(n ast.Node) bool {
		switch n.(type) {
		case *ast.FuncLit:
			return false
		case *ast.ForStmt, *ast.RangeStmt:
			out = append(out, n.(ast.Stmt))
		}
		return true
	})
	sort.Slice(out, func(i, j int) bool { return out[i].Pos() < out[j].Pos() })
	return out
}

func loopBodyPos(s ast.Stmt) token.Pos {
	switch l := s.(type) {
	case *ast.ForStmt:
		return l.Body.Lbrace + 1
	case *ast.RangeStmt:
		return l.Body.Lbrace + 1
	}
	return s.Pos()
}

func (p *Program) qualifier(pkg *types.Package) string {
	if pkg == p.Pkg.Types {
		return ""
	}
	return pkg.Name()
}

// bindClause type-checks the clause at pos. withResults adds result names for unnamed results.
func (p *Program) bindClause(c *Contract, cl *Clause, pos token.Pos, withResults bool) {
	var params []string
	for _, b := range cl.Bound {
		params = append(params, b.Name+" "+b.Type)
	}
	sig := c.Fn.Signature
	if withResults {
		res := sig.Results()
		for i := 0; i < res.Len(); i++ {
			v := res.At(i)
			if v.Name() != "" && v.Name() != "_" {
				continue
			}
			name := "result"
			if res.Len() > 1 {
				name = fmt.Sprintf("result%d", i)
			}
			params = append(params, name+" "+types.TypeString(v.Type(), p.qualifier))
		}
	}
	if cl.Kind == "invariant" || cl.Kind == "decreases" {
		params = append(params, "rangeIdx int")
	}
	if cl.Kind == "decreases" {
		// integer-valued expression
		src := "func(" + strings.Join(params, ", ") + ") int64 { return int64(" + cl.GoText + ") }"
		p.checkLit(c, cl, pos, src)
		return
	}
	src := "func(" + strings.Join(params, ", ") + ") bool { return " + cl.GoText + " }"
	p.checkLit(c, cl, pos, src)
}

func (p *Program) checkLit(c *Contract, cl *Clause, pos token.Pos, src string) {
	expr, err := parser.ParseExprFrom(p.Fset, fmt.Sprintf("%s:%d[%s#%s]", filepath.Base(cl.File), cl.Line, c.Key, cl.Label), src, 0)
	if err != nil {
		cl.Err = err
		c.BindErr = append(c.BindErr, fmt.Sprintf("%s#%s: parse: %v", cl.Kind, cl.Label, err))
		return
	}
	info := &types.Info{
		Types:      map[ast.Expr]types.TypeAndValue{},
		Uses:       map[*ast.Ident]types.Object{},
		Defs:       map[*ast.Ident]types.Object{},
		Selections: map[*ast.SelectorExpr]*types.Selection{},
		Instances:  map[*ast.Ident]types.Instance{},
	}
	if err := types.CheckExpr(p.Fset, p.Pkg.Types, pos, expr, info); err != nil {
		cl.Err = err
		c.BindErr = append(c.BindErr, fmt.Sprintf("%s#%s: %v", cl.Kind, cl.Label, err))
		return
	}
	cl.Info = info
	cl.Lit = expr.(*ast.FuncLit)
	cl.Expr = cl.Lit.Body.List[0].(*ast.ReturnStmt).Results[0]
	// record bound var objects
	i := 0
	for _, f := range cl.Lit.Type.Params.List {
		for _, n := range f.Names {
			if i < len(cl.Bound) {
				cl.Bound[i].Obj, _ = info.Defs[n].(*types.Var)
			}
			i++
		}
	}
}

// litParams returns the parameter objects of the clause literal (bound vars then result names).
func (cl *Clause) litParams() []*types.Var {
	var out []*types.Var
	for _, f := range cl.Lit.Type.Params.List {
		for _, n := range f.Names {
			v, _ := cl.Info.Defs[n].(*types.Var)
			out = append(out, v)
		}
	}
	return out
}

var calledGhostRe = regexp.MustCompile(`\bcalled\("([^"]+)"\)`)
