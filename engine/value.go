package main

// Symbolic values, heap keys, states.

import (
	"fmt"
	"go/types"
	"regexp"
	"strings"
)

type VK int

const (
	VScalar VK = iota
	VSlice     // Fs = base, off, len, cap
	VStruct    // Fs = fields
	VIface     // Fs = tag, ref
	VTuple     // Fs = elements
	VPtr       // Prefix, Ref, Idx
)

type Val struct {
	K      VK
	T      *Term
	Fs     []Val
	Prefix string
	Ref    *Term
	Idx    *Term
	Ty     types.Type
}

func scalar(t *Term, ty types.Type) Val { return Val{K: VScalar, T: t, Ty: ty} }

func sliceVal(base, off, ln, cp *Term, ty types.Type) Val {
	return Val{K: VSlice, Ty: ty, Fs: []Val{scalar(base, nil), scalar(off, nil), scalar(ln, nil), scalar(cp, nil)}}
}
func (v Val) base() *Term { return v.Fs[0].T }
func (v Val) off() *Term  { return v.Fs[1].T }
func (v Val) len() *Term  { return v.Fs[2].T }
func (v Val) cap() *Term  { return v.Fs[3].T }

func ifaceVal(tag, ref *Term, ty types.Type) Val {
	return Val{K: VIface, Ty: ty, Fs: []Val{scalar(tag, nil), scalar(ref, nil)}}
}

var byteRe = regexp.MustCompile(`\bbyte\b`)
var runeRe = regexp.MustCompile(`\brune\b`)

func typeName(t types.Type) string {
	s := types.TypeString(t, func(p *types.Package) string {
		if p.Path() == "github.com/pion/sctp" {
			return ""
		}
		return p.Name()
	})
	// byte and rune are aliases: one heap array per underlying element type
	s = byteRe.ReplaceAllString(s, "uint8")
	s = runeRe.ReplaceAllString(s, "int32")
	return s
}

// canonPrefix is the heap key prefix for a pointer whose pointee type is t.
func canonPrefix(t types.Type) string {
	switch u := t.Underlying().(type) {
	case *types.Struct:
		return "F:" + typeName(t)
	case *types.Array:
		return "E:" + typeName(u.Elem())
	}
	return "C:" + typeName(t)
}

func isIndexedPrefix(p string) bool { return strings.HasPrefix(p, "E:") }

func sortOfBasic(b *types.Basic) *Sort {
	switch b.Kind() {
	case types.Bool, types.UntypedBool:
		return SBool
	case types.Int8, types.Uint8:
		return BV(8)
	case types.Int16, types.Uint16:
		return BV(16)
	case types.Int32, types.Uint32, types.UntypedRune:
		return BV(32)
	case types.Int64, types.Uint64, types.Int, types.Uint, types.Uintptr, types.UntypedInt:
		return BV(64)
	case types.Float64, types.UntypedFloat:
		return SFP64
	case types.Float32:
		return SFP32
	case types.String, types.UntypedString:
		return BV(64)
	case types.UnsafePointer:
		return BV(64)
	case types.UntypedNil:
		return BV(64)
	}
	return BV(64)
}

func isSigned(t types.Type) bool {
	b, ok := t.Underlying().(*types.Basic)
	return ok && b.Info()&types.IsInteger != 0 && b.Info()&types.IsUnsigned == 0
}
func isInteger(t types.Type) bool {
	b, ok := t.Underlying().(*types.Basic)
	return ok && b.Info()&types.IsInteger != 0
}
func isFloat(t types.Type) bool {
	b, ok := t.Underlying().(*types.Basic)
	return ok && b.Info()&types.IsFloat != 0
}
func isString(t types.Type) bool {
	b, ok := t.Underlying().(*types.Basic)
	return ok && b.Info()&types.IsString != 0
}

type leaf struct {
	path string
	sort *Sort
}

// leaves flattens a Go type into scalar components.
func leaves(t types.Type) []leaf {
	switch u := t.Underlying().(type) {
	case *types.Basic:
		return []leaf{{"", sortOfBasic(u)}}
	case *types.Pointer, *types.Map, *types.Chan, *types.Signature:
		return []leaf{{"", SRef}}
	case *types.Slice:
		return []leaf{{"#base", SRef}, {"#off", BV(64)}, {"#len", BV(64)}, {"#cap", BV(64)}}
	case *types.Interface:
		return []leaf{{"#tag", BV(64)}, {"#ref", SRef}}
	case *types.Struct:
		var out []leaf
		for i := 0; i < u.NumFields(); i++ {
			f := u.Field(i)
			for _, l := range leaves(f.Type()) {
				out = append(out, leaf{"." + f.Name() + l.path, l.sort})
			}
		}
		return out
	case *types.Array:
		// arrays by value: opaque single leaf (unsupported for element-wise reasoning)
		return []leaf{{"#arr", BV(64)}}
	case *types.Tuple:
		var out []leaf
		for i := 0; i < u.Len(); i++ {
			for _, l := range leaves(u.At(i).Type()) {
				out = append(out, leaf{fmt.Sprintf("$%d%s", i, l.path), l.sort})
			}
		}
		return out
	case *types.TypeParam:
		return []leaf{{"", SRef}}
	}
	return []leaf{{"", BV(64)}}
}

// flatten returns the scalar terms of v in leaves(ty) order.
func flatten(v Val) []*Term {
	switch v.K {
	case VScalar:
		return []*Term{v.T}
	case VPtr:
		return []*Term{v.Ref}
	default:
		var out []*Term
		for _, f := range v.Fs {
			out = append(out, flatten(f)...)
		}
		return out
	}
}

// unflatten rebuilds a Val of Go type t from terms (consumes from *ts).
func unflatten(t types.Type, ts *[]*Term) Val {
	take := func() *Term { x := (*ts)[0]; *ts = (*ts)[1:]; return x }
	switch u := t.Underlying().(type) {
	case *types.Pointer:
		return Val{K: VPtr, Prefix: canonPrefix(u.Elem()), Ref: take(), Ty: t}
	case *types.Slice:
		b, o, l, c := take(), take(), take(), take()
		return sliceVal(b, o, l, c, t)
	case *types.Interface:
		tg, r := take(), take()
		return ifaceVal(tg, r, t)
	case *types.Struct:
		v := Val{K: VStruct, Ty: t}
		for i := 0; i < u.NumFields(); i++ {
			v.Fs = append(v.Fs, unflatten(u.Field(i).Type(), ts))
		}
		return v
	case *types.Tuple:
		v := Val{K: VTuple, Ty: t}
		for i := 0; i < u.Len(); i++ {
			v.Fs = append(v.Fs, unflatten(u.At(i).Type(), ts))
		}
		return v
	}
	return scalar(take(), t)
}

func freshVal(hint string, t types.Type) Val {
	var ts []*Term
	for _, l := range leaves(t) {
		ts = append(ts, Fresh(hint+l.path, l.sort))
	}
	return unflatten(t, &ts)
}

func symVal(name string, t types.Type) Val {
	var ts []*Term
	for _, l := range leaves(t) {
		ts = append(ts, Sym(name+l.path, l.sort))
	}
	return unflatten(t, &ts)
}

func zeroTerm(s *Sort) *Term {
	switch s.K {
	case KBool:
		return False
	case KBV:
		return BVU(0, s.W)
	case KFP:
		return FPLit(0)
	}
	panic("zeroTerm of array sort")
}

func zeroVal(t types.Type) Val {
	var ts []*Term
	for _, l := range leaves(t) {
		ts = append(ts, zeroTerm(l.sort))
	}
	return unflatten(t, &ts)
}

func iteVal(c *Term, a, b Val) Val {
	if c == True {
		return a
	}
	if c == False {
		return b
	}
	switch a.K {
	case VScalar:
		if a.T.S != b.T.S {
			panic(fmt.Sprintf("iteVal sort mismatch %s vs %s", a.T.S, b.T.S))
		}
		return Val{K: VScalar, T: Ite(c, a.T, b.T), Ty: a.Ty}
	case VPtr:
		r := a
		if b.K != VPtr {
			panic("iteVal ptr vs non-ptr")
		}
		if a.Prefix != b.Prefix {
			// nil pointers carry canonical prefix; keep the non-nil one if other is literal nil
			if isZeroLit(b.Ref) {
				// keep a's prefix
			} else if isZeroLit(a.Ref) {
				r = b
			} else {
				panic(fmt.Sprintf("unsupported: merging pointers with different prefixes %s / %s", a.Prefix, b.Prefix))
			}
		}
		if (a.Idx == nil) != (b.Idx == nil) {
			panic("unsupported: merging indexed and unindexed pointers")
		}
		r.Ref = Ite(c, a.Ref, b.Ref)
		if a.Idx != nil {
			r.Idx = Ite(c, a.Idx, b.Idx)
		}
		return r
	default:
		r := Val{K: a.K, Ty: a.Ty}
		if len(a.Fs) != len(b.Fs) {
			panic("iteVal arity")
		}
		for i := range a.Fs {
			r.Fs = append(r.Fs, iteVal(c, a.Fs[i], b.Fs[i]))
		}
		return r
	}
}

func isZeroLit(t *Term) bool { return t != nil && t.Op == "lit" && t.Lit.Sign() == 0 }

// ---------- heap state ----------

type epochExpr struct {
	leaf string
	pre  []prefTag // override rules, last match wins
	c    *Term
	a, b *epochExpr
}

type prefTag struct {
	prefix string
	exact  bool
	tag    string
}

func (e *epochExpr) name(key string) string {
	n := key + "@" + e.leaf
	tag := ""
	for _, p := range e.pre {
		if (p.exact && key == p.prefix) || (!p.exact && strings.HasPrefix(key, p.prefix)) {
			tag = p.tag
		}
	}
	if tag != "" {
		n += "+" + tag
	}
	return n
}

// withOverride returns a copy of the epoch tree in which the given keys/prefixes denote fresh arrays.
func (e *epochExpr) withOverride(exact map[string]bool, prefixes []string, tag string) *epochExpr {
	if e.a != nil {
		return &epochExpr{c: e.c, a: e.a.withOverride(exact, prefixes, tag), b: e.b.withOverride(exact, prefixes, tag)}
	}
	n := &epochExpr{leaf: e.leaf}
	n.pre = append(n.pre, e.pre...)
	for k := range exact {
		n.pre = append(n.pre, prefTag{k, true, tag})
	}
	for _, p := range prefixes {
		n.pre = append(n.pre, prefTag{p, false, tag})
	}
	return n
}

type State struct {
	pc    *Term
	heap  map[string]*Term
	epoch *epochExpr
}

func (s *State) clone() *State {
	n := &State{pc: s.pc, heap: make(map[string]*Term, len(s.heap)), epoch: s.epoch}
	for k, v := range s.heap {
		n.heap[k] = v
	}
	return n
}

func keyArraySort(key string, s *Sort) *Sort {
	if isIndexedPrefix(key) {
		return Arr(SRef, Arr(BV(64), s))
	}
	return Arr(SRef, s)
}

func (e *epochExpr) build(key string, as *Sort) *Term {
	if e.a == nil {
		return Sym(e.name(key), as)
	}
	return Ite(e.c, e.a.build(key, as), e.b.build(key, as))
}

func (s *State) arr(key string, elem *Sort) *Term {
	if t, ok := s.heap[key]; ok {
		return t
	}
	t := s.epoch.build(key, keyArraySort(key, elem))
	s.heap[key] = t
	return t
}

func (s *State) setArr(key string, t *Term) {
	if t == nil {
		panic("setArr nil for " + key)
	}
	s.heap[key] = t
}

// mergeStates joins states along edges with the given conditions (conditions are full path conditions).
func mergeStates(conds []*Term, sts []*State) *State {
	if len(sts) == 1 {
		n := sts[0].clone()
		n.pc = conds[0]
		return n
	}
	n := &State{heap: map[string]*Term{}}
	n.pc = Or(conds...)
	// epoch
	n.epoch = sts[len(sts)-1].epoch
	for i := len(sts) - 2; i >= 0; i-- {
		if sts[i].epoch != n.epoch {
			n.epoch = &epochExpr{c: conds[i], a: sts[i].epoch, b: n.epoch}
		}
	}
	keys := map[string]bool{}
	for _, s := range sts {
		for k := range s.heap {
			keys[k] = true
		}
	}
	for k := range keys {
		var as *Sort
		for _, s := range sts {
			if t, ok := s.heap[k]; ok {
				as = t.S
				break
			}
		}
		get := func(s *State) *Term {
			if t, ok := s.heap[k]; ok {
				return t
			}
			return s.epoch.build(k, as)
		}
		r := get(sts[len(sts)-1])
		for i := len(sts) - 2; i >= 0; i-- {
			r = Ite(conds[i], get(sts[i]), r)
		}
		if r == nil {
			panic("mergeStates produced nil for " + k)
		}
		n.heap[k] = r
	}
	return n
}
