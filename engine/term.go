package main

// Hash-consed SMT-LIB terms.

import (
	"os"
	"fmt"
	"math"
	"math/big"
	"sort"
	"strings"
)

type SortKind int

const (
	KBool SortKind = iota
	KBV
	KFP
	KArr
)

type Sort struct {
	K    SortKind
	W    int // BV width; FP: 64 or 32
	Idx  *Sort
	Elem *Sort
	str  string
}

var sortTab = map[string]*Sort{}

func mkSort(s Sort) *Sort {
	var str string
	switch s.K {
	case KBool:
		str = "Bool"
	case KBV:
		str = fmt.Sprintf("(_ BitVec %d)", s.W)
	case KFP:
		if s.W == 32 {
			str = "(_ FloatingPoint 8 24)"
		} else {
			str = "(_ FloatingPoint 11 53)"
		}
	case KArr:
		str = fmt.Sprintf("(Array %s %s)", s.Idx.str, s.Elem.str)
	}
	if p, ok := sortTab[str]; ok {
		return p
	}
	s.str = str
	p := &s
	sortTab[str] = p
	return p
}

var (
	SBool = mkSort(Sort{K: KBool})
	SRef  = BV(64)
	SFP64 = mkSort(Sort{K: KFP, W: 64})
	SFP32 = mkSort(Sort{K: KFP, W: 32})
)

func BV(w int) *Sort          { return mkSort(Sort{K: KBV, W: w}) }
func Arr(i, e *Sort) *Sort    { return mkSort(Sort{K: KArr, Idx: i, Elem: e}) }
func (s *Sort) String() string { return s.str }

type Term struct {
	Op   string // "const" (declared symbol), "lit", "true", "false", or SMT operator; "bvar" bound variable
	Args []*Term
	S    *Sort
	Name string   // const / bvar name; for indexed ops the index text e.g. "extract 7 0"
	Lit  *big.Int // for lit
	id   int
	key  string
}

type TermTab struct {
	m    map[string]*Term
	n    int
	syms map[string]*Term
	gen  int
}

var TT = &TermTab{m: map[string]*Term{}, syms: map[string]*Term{}}

func (tt *TermTab) intern(t *Term) *Term {
	var sb strings.Builder
	sb.WriteString(t.Op)
	sb.WriteByte('|')
	sb.WriteString(t.Name)
	sb.WriteByte('|')
	if t.Lit != nil {
		sb.WriteString(t.Lit.String())
	}
	sb.WriteByte('|')
	sb.WriteString(t.S.str)
	for _, a := range t.Args {
		fmt.Fprintf(&sb, ",%d", a.id)
	}
	k := sb.String()
	if p, ok := tt.m[k]; ok {
		return p
	}
	tt.n++
	t.id = tt.n
	t.key = k
	tt.m[k] = t
	return t
}

// Sym returns the declared constant with the given name (creating it).
func Sym(name string, s *Sort) *Term {
	name = smtName(name)
	if p, ok := TT.syms[name]; ok {
		if p.S != s {
			panic(fmt.Sprintf("symbol %s redeclared with sort %s (was %s)", name, s, p.S))
		}
		return p
	}
	t := TT.intern(&Term{Op: "const", Name: name, S: s})
	TT.syms[name] = t
	return t
}

// Fresh returns a new constant with a unique name derived from hint.
func Fresh(hint string, s *Sort) *Term {
	for {
		TT.gen++
		name := smtName(fmt.Sprintf("%s!%d", hint, TT.gen))
		if _, ok := TT.syms[name]; !ok {
			return Sym(name, s)
		}
	}
}

func smtName(n string) string {
	var sb strings.Builder
	for _, r := range n {
		switch {
		case r >= 'a' && r <= 'z', r >= 'A' && r <= 'Z', r >= '0' && r <= '9', strings.ContainsRune("_.!$@%^&*-+<>/?~", r):
			sb.WriteRune(r)
		default:
			sb.WriteByte('_')
		}
	}
	s := sb.String()
	if s == "" || (s[0] >= '0' && s[0] <= '9') {
		s = "v" + s
	}
	return s
}

func BVar(name string, s *Sort) *Term { return TT.intern(&Term{Op: "bvar", Name: smtName(name), S: s}) }

var (
	True  = TT.intern(&Term{Op: "true", S: SBool})
	False = TT.intern(&Term{Op: "false", S: SBool})
)

// resetTerms starts a new term universe (one per verified function).
func resetTerms() {
	TT = &TermTab{m: map[string]*Term{}, syms: map[string]*Term{}}
	True = TT.intern(&Term{Op: "true", S: SBool})
	False = TT.intern(&Term{Op: "false", S: SBool})
	bvarMemo = map[int]bool{}
}

func Bool(b bool) *Term {
	if b {
		return True
	}
	return False
}

func BVLit(v *big.Int, w int) *Term {
	m := new(big.Int).Lsh(big.NewInt(1), uint(w))
	x := new(big.Int).Mod(v, m)
	return TT.intern(&Term{Op: "lit", Lit: x, S: BV(w)})
}
func BVU(v uint64, w int) *Term { return BVLit(new(big.Int).SetUint64(v), w) }
func BVI(v int64, w int) *Term  { return BVLit(big.NewInt(v), w) }

func (t *Term) IsLit() bool   { return t.Op == "lit" }
func (t *Term) IsTrue() bool  { return t == True }
func (t *Term) IsFalse() bool { return t == False }

func mk(op string, s *Sort, args ...*Term) *Term {
	return TT.intern(&Term{Op: op, Args: args, S: s})
}
func mkN(op, name string, s *Sort, args ...*Term) *Term {
	return TT.intern(&Term{Op: op, Name: name, Args: args, S: s})
}

func Not(a *Term) *Term {
	switch {
	case a == True:
		return False
	case a == False:
		return True
	case a.Op == "not":
		return a.Args[0]
	}
	return mk("not", SBool, a)
}

func And(as ...*Term) *Term {
	var out []*Term
	seen := map[int]bool{}
	for _, a := range as {
		if a == True {
			continue
		}
		if a == False {
			return False
		}
		if a.Op == "and" {
			for _, b := range a.Args {
				if !seen[b.id] {
					seen[b.id] = true
					out = append(out, b)
				}
			}
			continue
		}
		if !seen[a.id] {
			seen[a.id] = true
			out = append(out, a)
		}
	}
	switch len(out) {
	case 0:
		return True
	case 1:
		return out[0]
	}
	return mk("and", SBool, out...)
}

func Or(as ...*Term) *Term {
	var out []*Term
	seen := map[int]bool{}
	for _, a := range as {
		if a == False {
			continue
		}
		if a == True {
			return True
		}
		if a.Op == "or" {
			for _, b := range a.Args {
				if !seen[b.id] {
					seen[b.id] = true
					out = append(out, b)
				}
			}
			continue
		}
		if !seen[a.id] {
			seen[a.id] = true
			out = append(out, a)
		}
	}
	switch len(out) {
	case 0:
		return False
	case 1:
		return out[0]
	}
	return mk("or", SBool, out...)
}

func Implies(a, b *Term) *Term {
	if a == True {
		return b
	}
	if a == False || b == True {
		return True
	}
	if b == False {
		return Not(a)
	}
	return mk("=>", SBool, a, b)
}

func Eq(a, b *Term) *Term {
	if a.S != b.S {
		panic(fmt.Sprintf("Eq sort mismatch %s vs %s (%s / %s)", a.S, b.S, a.Short(), b.Short()))
	}
	if a == b {
		return True
	}
	if a.Op == "lit" && b.Op == "lit" {
		return Bool(a.Lit.Cmp(b.Lit) == 0)
	}
	if a.S == SBool {
		if a == True {
			return b
		}
		if b == True {
			return a
		}
		if a == False {
			return Not(b)
		}
		if b == False {
			return Not(a)
		}
	}
	if a.S.K == KFP {
		// Go == on floats is IEEE equality
		return mk("fp.eq", SBool, a, b)
	}
	if a.id > b.id {
		a, b = b, a
	}
	return mk("=", SBool, a, b)
}

// StructEq is structural (SMT =) equality even for floats.
func StructEq(a, b *Term) *Term {
	if a == b {
		return True
	}
	if a.S.K != KFP {
		return Eq(a, b)
	}
	return mk("=", SBool, a, b)
}

func Ite(c, a, b *Term) *Term {
	if a.S != b.S {
		panic(fmt.Sprintf("Ite sort mismatch %s vs %s", a.S, b.S))
	}
	if c == True {
		return a
	}
	if c == False {
		return b
	}
	if a == b {
		return a
	}
	// a nested choice on the same condition is decided by the outer one
	if a.Op == "ite" && a.Args[0] == c {
		return Ite(c, a.Args[1], b)
	}
	if b.Op == "ite" && b.Args[0] == c {
		return Ite(c, a, b.Args[2])
	}
	if a.S == SBool {
		if a == True && b == False {
			return c
		}
		if a == False && b == True {
			return Not(c)
		}
		if a == True {
			return Or(c, b)
		}
		if a == False {
			return And(Not(c), b)
		}
		if b == True {
			return Or(Not(c), a)
		}
		if b == False {
			return And(c, a)
		}
	}
	return mk("ite", a.S, c, a, b)
}

var pushSelIdx = os.Getenv("SCTPVC_NOPUSHSEL") == ""

func Select(a, i *Term) *Term {
	if a.S.K != KArr {
		panic("select on non-array " + a.S.str)
	}
	if a.S.Idx != i.S {
		panic(fmt.Sprintf("select index sort %s vs %s", a.S.Idx, i.S))
	}
	// read-over-write simplification
	for a.Op == "store" {
		j := a.Args[1]
		if j == i {
			return a.Args[2]
		}
		if j.Op == "lit" && i.Op == "lit" { // distinct literals
			a = a.Args[0]
			continue
		}
		break
	}
	if a.Op == "constarr" {
		return a.Args[0]
	}
	if pushSelIdx && i.Op == "ite" && a.S.Elem.K == KArr {
		// a read of the heap at a merged reference: one read per alternative, so that read-over-write can fire
		return Ite(i.Args[0], Select(a, i.Args[1]), Select(a, i.Args[2]))
	}
	if a.Op == "ite" && (pushSelIdx || a.Args[1].Op == "store" || a.Args[2].Op == "store" || a.Args[1].Op == "ite" || a.Args[2].Op == "ite") {
		// push the read through a merge of heap versions so that read-over-write can fire; the index is
		// simplified under the condition of each alternative
		c := a.Args[0]
		it, ie := i, i
		if pushSelIdx && containsTerm(i, c) {
			it = Subst(i, map[*Term]*Term{c: True})
			ie = Subst(i, map[*Term]*Term{c: False})
		}
		return Ite(c, Select(a.Args[1], it), Select(a.Args[2], ie))
	}
	return mk("select", a.S.Elem, a, i)
}

func Store(a, i, v *Term) *Term {
	if a.S.K != KArr || a.S.Idx != i.S || a.S.Elem != v.S {
		panic(fmt.Sprintf("store sort mismatch %s [%s] := %s", a.S, i.S, v.S))
	}
	if a.Op == "store" && a.Args[1] == i {
		a = a.Args[0]
	}
	return mk("store", a.S, a, i, v)
}

func ConstArr(s *Sort, v *Term) *Term { return mk("constarr", s, v) }

func mask(w int) *big.Int {
	return new(big.Int).Sub(new(big.Int).Lsh(big.NewInt(1), uint(w)), big.NewInt(1))
}

func toSigned(v *big.Int, w int) *big.Int {
	if v.Bit(w-1) == 1 {
		return new(big.Int).Sub(v, new(big.Int).Lsh(big.NewInt(1), uint(w)))
	}
	return new(big.Int).Set(v)
}

// BVBin builds a binary bit-vector operation with constant folding.
func BVBin(op string, a, b *Term) *Term {
	if a.S != b.S || a.S.K != KBV {
		panic(fmt.Sprintf("%s sort mismatch %s vs %s (%s ; %s)", op, a.S, b.S, a.Short(), b.Short()))
	}
	w := a.S.W
	if a.Op == "lit" && b.Op == "lit" {
		x, y := a.Lit, b.Lit
		r := new(big.Int)
		ok := true
		switch op {
		case "bvadd":
			r.Add(x, y)
		case "bvsub":
			r.Sub(x, y)
		case "bvmul":
			r.Mul(x, y)
		case "bvand":
			r.And(x, y)
		case "bvor":
			r.Or(x, y)
		case "bvxor":
			r.Xor(x, y)
		case "bvudiv":
			if y.Sign() == 0 {
				ok = false
			} else {
				r.Div(x, y)
			}
		case "bvurem":
			if y.Sign() == 0 {
				ok = false
			} else {
				r.Mod(x, y)
			}
		case "bvsdiv":
			if y.Sign() == 0 {
				ok = false
			} else {
				r.Quo(toSigned(x, w), toSigned(y, w))
			}
		case "bvsrem":
			if y.Sign() == 0 {
				ok = false
			} else {
				r.Rem(toSigned(x, w), toSigned(y, w))
			}
		case "bvshl":
			if y.Cmp(big.NewInt(int64(w))) >= 0 {
				r.SetInt64(0)
			} else {
				r.Lsh(x, uint(y.Int64()))
			}
		case "bvlshr":
			if y.Cmp(big.NewInt(int64(w))) >= 0 {
				r.SetInt64(0)
			} else {
				r.Rsh(x, uint(y.Int64()))
			}
		case "bvashr":
			sx := toSigned(x, w)
			if y.Cmp(big.NewInt(int64(w))) >= 0 {
				if sx.Sign() < 0 {
					r.SetInt64(-1)
				} else {
					r.SetInt64(0)
				}
			} else {
				r.Rsh(sx, uint(y.Int64()))
			}
		default:
			ok = false
		}
		if ok {
			return BVLit(r, w)
		}
	}
	switch op {
	case "bvadd":
		if a.Op == "lit" && a.Lit.Sign() == 0 {
			return b
		}
		if b.Op == "lit" && b.Lit.Sign() == 0 {
			return a
		}
	case "bvsub":
		if b.Op == "lit" && b.Lit.Sign() == 0 {
			return a
		}
		if a == b {
			return BVU(0, w)
		}
	case "bvand":
		if a == b {
			return a
		}
	case "bvor":
		if a == b {
			return a
		}
		if a.Op == "lit" && a.Lit.Sign() == 0 {
			return b
		}
		if b.Op == "lit" && b.Lit.Sign() == 0 {
			return a
		}
	}
	return mk(op, a.S, a, b)
}

func BVCmp(op string, a, b *Term) *Term {
	if a.S != b.S || a.S.K != KBV {
		panic(fmt.Sprintf("%s sort mismatch %s vs %s (%s ; %s)", op, a.S, b.S, a.Short(), b.Short()))
	}
	w := a.S.W
	if a.Op == "lit" && b.Op == "lit" {
		x, y := a.Lit, b.Lit
		switch op {
		case "bvult":
			return Bool(x.Cmp(y) < 0)
		case "bvule":
			return Bool(x.Cmp(y) <= 0)
		case "bvugt":
			return Bool(x.Cmp(y) > 0)
		case "bvuge":
			return Bool(x.Cmp(y) >= 0)
		case "bvslt":
			return Bool(toSigned(x, w).Cmp(toSigned(y, w)) < 0)
		case "bvsle":
			return Bool(toSigned(x, w).Cmp(toSigned(y, w)) <= 0)
		case "bvsgt":
			return Bool(toSigned(x, w).Cmp(toSigned(y, w)) > 0)
		case "bvsge":
			return Bool(toSigned(x, w).Cmp(toSigned(y, w)) >= 0)
		}
	}
	return mk(op, SBool, a, b)
}

func BVNot(a *Term) *Term {
	if a.Op == "lit" {
		return BVLit(new(big.Int).Xor(a.Lit, mask(a.S.W)), a.S.W)
	}
	return mk("bvnot", a.S, a)
}
func BVNeg(a *Term) *Term {
	if a.Op == "lit" {
		return BVLit(new(big.Int).Neg(a.Lit), a.S.W)
	}
	return mk("bvneg", a.S, a)
}

func Extract(hi, lo int, a *Term) *Term {
	if lo == 0 && hi == a.S.W-1 {
		return a
	}
	if a.Op == "lit" {
		r := new(big.Int).Rsh(a.Lit, uint(lo))
		return BVLit(r, hi-lo+1)
	}
	return mkN("extract", fmt.Sprintf("(_ extract %d %d)", hi, lo), BV(hi-lo+1), a)
}

func ZeroExt(a *Term, w int) *Term {
	if w == a.S.W {
		return a
	}
	if w < a.S.W {
		return Extract(w-1, 0, a)
	}
	if a.Op == "lit" {
		return BVLit(a.Lit, w)
	}
	return mkN("zext", fmt.Sprintf("(_ zero_extend %d)", w-a.S.W), BV(w), a)
}

func SignExt(a *Term, w int) *Term {
	if w == a.S.W {
		return a
	}
	if w < a.S.W {
		return Extract(w-1, 0, a)
	}
	if a.Op == "lit" {
		return BVLit(toSigned(a.Lit, a.S.W), w)
	}
	return mkN("sext", fmt.Sprintf("(_ sign_extend %d)", w-a.S.W), BV(w), a)
}

func Concat(a, b *Term) *Term {
	if a.Op == "lit" && b.Op == "lit" {
		r := new(big.Int).Lsh(a.Lit, uint(b.S.W))
		r.Or(r, b.Lit)
		return BVLit(r, a.S.W+b.S.W)
	}
	return mk("concat", BV(a.S.W+b.S.W), a, b)
}

// App is an uninterpreted function application; the function symbol is declared on output.
func App(fname string, res *Sort, args ...*Term) *Term {
	return mkN("app", smtName(fname), res, args...)
}

// FP helpers
func FPLit(f float64) *Term {
	return mkN("fplit", fmt.Sprintf("%b", f), SFP64) // rendered specially
}

func FPBin(op string, a, b *Term) *Term { return mk(op, a.S, a, b) } // fp.add etc (RNE added on print)
func FPCmp(op string, a, b *Term) *Term { return mk(op, SBool, a, b) }

func (t *Term) Short() string {
	s := t.String()
	if len(s) > 200 {
		return s[:200] + "..."
	}
	return s
}

// String renders the term as a (possibly huge) tree; for debugging only.
func (t *Term) String() string {
	var sb strings.Builder
	var rec func(t *Term, d int)
	rec = func(t *Term, d int) {
		if sb.Len() > 4000 {
			return
		}
		switch t.Op {
		case "const", "bvar":
			sb.WriteString(t.Name)
		case "lit":
			fmt.Fprintf(&sb, "%s#%d", t.Lit.String(), t.S.W)
		case "true", "false":
			sb.WriteString(t.Op)
		default:
			if d > 12 {
				sb.WriteString("…")
				return
			}
			sb.WriteByte('(')
			if t.Name != "" {
				sb.WriteString(t.Name)
			} else {
				sb.WriteString(t.Op)
			}
			for _, a := range t.Args {
				sb.WriteByte(' ')
				rec(a, d+1)
			}
			sb.WriteByte(')')
		}
	}
	rec(t, 0)
	return sb.String()
}

// ---------- SMT-LIB output ----------

type smtWriter struct {
	sb       strings.Builder
	done     map[int]string // term id -> name or inline text
	apps     []*Term        // ground uninterpreted applications emitted
	sels     []*Term        // scalar reads of pre-state arrays at input-like indices
	declared map[string]bool
	funs     map[string]bool
}

func newSMTWriter() *smtWriter {
	return &smtWriter{done: map[int]string{}, declared: map[string]bool{}, funs: map[string]bool{}}
}

func litText(t *Term) string {
	w := t.S.W
	if w%4 == 0 {
		return fmt.Sprintf("#x%0*s", w/4, t.Lit.Text(16))
	}
	return fmt.Sprintf("#b%0*s", w, t.Lit.Text(2))
}

func fpLitText(t *Term) string {
	var f float64
	fmt.Sscanf(t.Name, "%b", &f)
	bits := float64bits(f)
	return fmt.Sprintf("(fp #b%01b #b%011b #x%013x)", bits>>63, (bits>>52)&0x7ff, bits&((1<<52)-1))
}

// emit returns the SMT text that denotes t, emitting definitions for shared subterms first.
func (w *smtWriter) emit(t *Term) string {
	if s, ok := w.done[t.id]; ok {
		return s
	}
	var s string
	switch t.Op {
	case "true", "false":
		s = t.Op
	case "lit":
		s = litText(t)
	case "fplit":
		s = fpLitText(t)
	case "bvar":
		s = t.Name
	case "const":
		if !w.declared[t.Name] {
			w.declared[t.Name] = true
			fmt.Fprintf(&w.sb, "(declare-fun %s () %s)\n", t.Name, t.S)
		}
		s = t.Name
	default:
		args := make([]string, len(t.Args))
		hasBound := false
		for i, a := range t.Args {
			args[i] = w.emit(a)
		}
		hasBound = containsBVar(t)
		var head string
		switch t.Op {
		case "extract", "zext", "sext", "fpnan", "fp.rti":
			head = t.Name
		case "constarr":
			head = fmt.Sprintf("(as const %s)", t.S)
		case "app":
			if !w.funs[t.Name] {
				w.funs[t.Name] = true
				var as []string
				for _, a := range t.Args {
					as = append(as, a.S.str)
				}
				fmt.Fprintf(&w.sb, "(declare-fun %s (%s) %s)\n", t.Name, strings.Join(as, " "), t.S)
			}
			head = t.Name
		case "fp.add", "fp.sub", "fp.mul", "fp.div":
			head = t.Op + " RNE"
		case "to_fp_s":
			head = fmt.Sprintf("(_ to_fp %s) RNE", fpDims(t.S))
		case "to_fp_u":
			head = fmt.Sprintf("(_ to_fp_unsigned %s) RNE", fpDims(t.S))
		case "to_fp_f":
			head = fmt.Sprintf("(_ to_fp %s) RNE", fpDims(t.S))
		case "fp.to_sbv":
			head = fmt.Sprintf("(_ fp.to_sbv %d) RTZ", t.S.W)
		case "fp.to_ubv":
			head = fmt.Sprintf("(_ fp.to_ubv %d) RTZ", t.S.W)
		case "forall":
			// Args[0] is body; Name holds the binder list text
			body := args[0]
			s = fmt.Sprintf("(forall (%s) %s)", t.Name, body)
			w.done[t.id] = s
			return s
		default:
			head = t.Op
		}
		if len(args) == 0 {
			s = head
		} else {
			s = "(" + head + " " + strings.Join(args, " ") + ")"
		}
		if !hasBound && t.Op == "app" {
			w.apps = append(w.apps, t)
		}
		if !hasBound && t.Op == "select" && t.S.K != KArr && len(w.sels) < 80 {
			a, i := t.Args[0], t.Args[1]
			if a.Op == "const" && strings.HasSuffix(a.Name, "@pre") && (i.Op == "const" || i.Op == "lit" || i.Op == "select") {
				w.sels = append(w.sels, t)
			}
		}
		if !hasBound {
			name := fmt.Sprintf("n%d", t.id)
			fmt.Fprintf(&w.sb, "(define-fun %s () %s %s)\n", name, t.S, s)
			s = name
		}
	}
	w.done[t.id] = s
	return s
}

func fpDims(s *Sort) string {
	if s.W == 32 {
		return "8 24"
	}
	return "11 53"
}

var bvarMemo = map[int]bool{}

func containsBVar(t *Term) bool {
	if v, ok := bvarMemo[t.id]; ok {
		return v
	}
	r := false
	if t.Op == "bvar" {
		r = true
	} else if t.Op == "forall" {
		r = false // closed (we only build closed foralls)
	} else {
		for _, a := range t.Args {
			if containsBVar(a) {
				r = true
				break
			}
		}
	}
	bvarMemo[t.id] = r
	return r
}

func (w *smtWriter) assert(t *Term) {
	s := w.emit(t)
	fmt.Fprintf(&w.sb, "(assert %s)\n", s)
}

func Forall(vars []*Term, body *Term) *Term {
	if len(vars) == 0 {
		return body
	}
	var bs []string
	for _, v := range vars {
		bs = append(bs, fmt.Sprintf("(%s %s)", v.Name, v.S))
	}
	return mkN("forall", strings.Join(bs, " "), SBool, body)
}

// Subst replaces terms according to m (by identity), rebuilding with simplification.
func Subst(t *Term, m map[*Term]*Term) *Term {
	memo := map[int]*Term{}
	var rec func(t *Term) *Term
	rec = func(t *Term) *Term {
		if r, ok := m[t]; ok {
			return r
		}
		if len(t.Args) == 0 {
			return t
		}
		if r, ok := memo[t.id]; ok {
			return r
		}
		changed := false
		args := make([]*Term, len(t.Args))
		for i, a := range t.Args {
			args[i] = rec(a)
			if args[i] != a {
				changed = true
			}
		}
		r := t
		if changed {
			r = rebuild(t, args)
		}
		memo[t.id] = r
		return r
	}
	return rec(t)
}

func rebuild(t *Term, args []*Term) *Term {
	switch t.Op {
	case "not":
		return Not(args[0])
	case "and":
		return And(args...)
	case "or":
		return Or(args...)
	case "=>":
		return Implies(args[0], args[1])
	case "=":
		return StructEq(args[0], args[1])
	case "ite":
		return Ite(args[0], args[1], args[2])
	case "select":
		return Select(args[0], args[1])
	case "store":
		return Store(args[0], args[1], args[2])
	case "bvadd", "bvsub", "bvmul", "bvand", "bvor", "bvxor", "bvudiv", "bvurem", "bvsdiv", "bvsrem", "bvshl", "bvlshr", "bvashr":
		return BVBin(t.Op, args[0], args[1])
	case "bvult", "bvule", "bvugt", "bvuge", "bvslt", "bvsle", "bvsgt", "bvsge":
		return BVCmp(t.Op, args[0], args[1])
	}
	return TT.intern(&Term{Op: t.Op, Name: t.Name, Args: args, S: t.S, Lit: t.Lit})
}

// Subterms visits every distinct subterm of the roots once.
func Subterms(roots []*Term, f func(*Term)) {
	seen := map[int]bool{}
	var rec func(t *Term)
	rec = func(t *Term) {
		if seen[t.id] {
			return
		}
		seen[t.id] = true
		for _, a := range t.Args {
			rec(a)
		}
		f(t)
	}
	for _, r := range roots {
		rec(r)
	}
}

func sortedKeys[V any](m map[string]V) []string {
	ks := make([]string, 0, len(m))
	for k := range m {
		ks = append(ks, k)
	}
	sort.Strings(ks)
	return ks
}

func float64bits(f float64) uint64 { return math.Float64bits(f) }
