package main

// Builtins, externals with built-in semantics, interface invokes, at-call assertions.

import (
	"os"
	"fmt"
	"go/token"
	"go/types"
	"sort"
	"strings"

	"golang.org/x/tools/go/ssa"
)

func to64(t *Term, signed bool) *Term {
	if signed {
		return SignExt(t, 64)
	}
	return ZeroExt(t, 64)
}

func (x *fnExec) builtin(fr *frame, st *State, b *ssa.Builtin, cc *ssa.CallCommon, args []Val, resT types.Type, ci ssa.CallInstruction) Val {
	switch b.Name() {
	case "len":
		a := args[0]
		switch u := cc.Args[0].Type().Underlying().(type) {
		case *types.Slice:
			return scalar(a.len(), resT)
		case *types.Basic: // string
			if c, ok := cc.Args[0].(*ssa.Const); ok && c.Value != nil {
				return scalar(BVU(uint64(len(constStr(c))), 64), resT)
			}
			r := App("strlen", BV(64), a.T)
			x.facts = append(x.facts, Fact{x.next(), And(BVCmp("bvsge", r, BVU(0, 64)), Eq(App("strlen", BV(64), BVU(0, 64)), BVU(0, 64))), false, ""})
			return scalar(r, resT)
		case *types.Map:
			r := App("maplen_"+typeName(u), BV(64), a.T, x.mapDomTerm(st, u, a.T))
			x.facts = append(x.facts, Fact{x.next(), BVCmp("bvsge", r, BVU(0, 64)), false, ""})
			return scalar(r, resT)
		case *types.Pointer:
			return scalar(BVU(uint64(u.Elem().Underlying().(*types.Array).Len()), 64), resT)
		case *types.Array:
			return scalar(BVU(uint64(u.Len()), 64), resT)
		case *types.Chan:
			return scalar(Fresh("chanlen", BV(64)), resT)
		}
	case "cap":
		if _, ok := cc.Args[0].Type().Underlying().(*types.Slice); ok {
			return scalar(args[0].cap(), resT)
		}
		return scalar(Fresh("cap", BV(64)), resT)
	case "append":
		return x.appendOp(fr, st, cc, args, resT, ci)
	case "copy":
		return x.copyOp(fr, st, cc, args, resT)
	case "min", "max":
		r := args[0]
		t := cc.Args[0].Type()
		for _, a := range args[1:] {
			var c *Term
			switch {
			case r.T.S.K == KFP:
				c = FPCmp("fp.lt", a.T, r.T)
			case isSigned(t):
				c = BVCmp("bvslt", a.T, r.T)
			default:
				c = BVCmp("bvult", a.T, r.T)
			}
			if b.Name() == "max" {
				switch {
				case r.T.S.K == KFP:
					c = FPCmp("fp.gt", a.T, r.T)
				case isSigned(t):
					c = BVCmp("bvsgt", a.T, r.T)
				default:
					c = BVCmp("bvugt", a.T, r.T)
				}
			}
			r = scalar(Ite(c, a.T, r.T), resT)
		}
		return r
	case "delete":
		mt := cc.Args[0].Type().Underlying().(*types.Map)
		if _, ok := mapKeySort(mt); ok {
			x.mapDelete(st, mt, args[0].T, keyTerm(args[1]))
		}
		return Val{K: VTuple}
	case "panic":
		if fr.safety {
			x.obligation(st, x.safetyName("panic"), "safe", "explicit panic at "+x.P.Fset.Position(ci.Pos()).String(), nil, False, nil, "")
		}
		st.pc = False
		return Val{K: VTuple}
	case "print", "println", "close", "recover":
		if b.Name() == "recover" {
			return freshVal("recover", resT)
		}
		return Val{K: VTuple}
	case "ssa:wrapnilchk":
		return args[0]
	case "clear":
		x.havocAll(st, "clear builtin")
		return Val{K: VTuple}
	}
	panic("builtin " + b.Name())
}

func constStr(c *ssa.Const) string {
	s := c.Value.ExactString()
	if len(s) >= 2 && s[0] == '"' {
		var out string
		fmt.Sscanf(s, "%q", &out)
		return out
	}
	return s
}

func (x *fnExec) mapDomTerm(st *State, mt *types.Map, m *Term) *Term {
	ks, ok := mapKeySort(mt)
	if !ok {
		return BVU(0, 64)
	}
	d := Select(x.mapArr(st, mapPrefix(mt)+"#dom", ks, SBool), m)
	// arrays cannot be arguments of an uninterpreted BV function portably; hash through a second UF
	return App("domid_"+typeName(mt), BV(64), d)
}

// appendOp models append(s, xs...) with both the in-place and the reallocation branch.
func (x *fnExec) appendOp(fr *frame, st *State, cc *ssa.CallCommon, args []Val, resT types.Type, ci ssa.CallInstruction) Val {
	s := args[0]
	sl, ok := cc.Args[0].Type().Underlying().(*types.Slice)
	if !ok {
		panic("append on non-slice")
	}
	if len(args) < 2 {
		return s
	}
	xs := args[1]
	if _, isStr := cc.Args[1].Type().Underlying().(*types.Basic); isStr {
		x.note("append of string bytes treated as unknown")
		return x.unknownSlice(st, resT)
	}
	n := xs.len()
	newLen := BVBin("bvadd", s.len(), n)
	fits := BVCmp("bvule", newLen, s.cap())
	// in place branch
	nb := x.freshRef(st, "append")
	newCap := Fresh("appcap", BV(64))
	x.assume(st, And(BVCmp("bvsge", newCap, newLen), BVCmp("bvsge", newLen, BVU(0, 64)), BVCmp("bvsge", n, BVU(0, 64))))
	for _, l := range leaves(sl.Elem()) {
		key := "E:" + typeName(sl.Elem()) + l.path
		a := st.arr(key, l.sort)
		src := Select(a, xs.base())
		// destination rows
		inplaceRow := Fresh("approw", Arr(BV(64), l.sort))
		newRow := Fresh("appnew", Arr(BV(64), l.sort))
		oldRow := Select(a, s.base())
		// quantified characterisation of the rows (instantiated at use sites by the generator)
		j := BVar("j", BV(64))
		inRange := And(BVCmp("bvule", BVU(0, 64), j), BVCmp("bvult", j, n))
		// in place: row[off+len+j] = src[xoff+j]; other indices unchanged
		dstIdx := BVBin("bvadd", BVBin("bvadd", s.off(), s.len()), j)
		x.qfacts = append(x.qfacts, &QFact{seq: x.next(), pc: And(st.pc, fits), vars: []*Term{j},
			body:   Implies(inRange, Eq(Select(inplaceRow, dstIdx), Select(src, BVBin("bvadd", xs.off(), j)))),
			origin: "append/inplace/new"})
		k := BVar("k", BV(64))
		outside := Or(BVCmp("bvult", k, BVBin("bvadd", s.off(), s.len())), BVCmp("bvuge", k, BVBin("bvadd", BVBin("bvadd", s.off(), s.len()), n)))
		x.qfacts = append(x.qfacts, &QFact{seq: x.next(), pc: And(st.pc, fits), vars: []*Term{k},
			body:   Implies(outside, Eq(Select(inplaceRow, k), Select(oldRow, k))),
			origin: "append/inplace/frame"})
		// reallocation: new row: [0,len) = old[off+i]; [len, len+n) = src
		i := BVar("i", BV(64))
		x.qfacts = append(x.qfacts, &QFact{seq: x.next(), pc: And(st.pc, Not(fits)), vars: []*Term{i},
			body:   Implies(BVCmp("bvult", i, s.len()), Eq(Select(newRow, i), Select(oldRow, BVBin("bvadd", s.off(), i)))),
			origin: "append/realloc/prefix"})
		x.qfacts = append(x.qfacts, &QFact{seq: x.next(), pc: And(st.pc, Not(fits)), vars: []*Term{j},
			body:   Implies(inRange, Eq(Select(newRow, BVBin("bvadd", s.len(), j)), Select(src, BVBin("bvadd", xs.off(), j)))),
			origin: "append/realloc/new"})
		a2 := Ite(fits, Store(a, s.base(), inplaceRow), Store(a, nb, newRow))
		st.setArr(key, a2)
	}
	return sliceVal(Ite(fits, s.base(), nb), Ite(fits, s.off(), BVU(0, 64)), newLen, Ite(fits, s.cap(), newCap), resT)
}

func (x *fnExec) unknownSlice(st *State, t types.Type) Val {
	v := freshVal("slice", t)
	x.assume(st, sliceWF(v))
	return v
}

func sliceWF(v Val) *Term {
	return And(BVCmp("bvsge", v.len(), BVU(0, 64)), BVCmp("bvsle", v.len(), v.cap()), BVCmp("bvsge", v.off(), BVU(0, 64)),
		BVCmp("bvsge", BVBin("bvadd", v.off(), v.cap()), BVU(0, 64)),
		BVCmp("bvule", v.cap(), BVU(1<<40, 64)), BVCmp("bvule", v.off(), BVU(1<<40, 64)),
		Implies(Eq(v.base(), BVU(0, 64)), And(Eq(v.len(), BVU(0, 64)), Eq(v.cap(), BVU(0, 64)))))
}

func (x *fnExec) copyOp(fr *frame, st *State, cc *ssa.CallCommon, args []Val, resT types.Type) Val {
	dst, src := args[0], args[1]
	sl, ok := cc.Args[0].Type().Underlying().(*types.Slice)
	if !ok {
		panic("copy to non-slice")
	}
	if _, isStr := cc.Args[1].Type().Underlying().(*types.Basic); isStr {
		// copy from string: destination bytes unknown
		for _, l := range leaves(sl.Elem()) {
			key := "E:" + typeName(sl.Elem()) + l.path
			a := st.arr(key, l.sort)
			st.setArr(key, Store(a, dst.base(), Fresh("cpstr", Arr(BV(64), l.sort))))
		}
		return scalar(Fresh("copyn", BV(64)), resT)
	}
	m := Ite(BVCmp("bvslt", dst.len(), src.len()), dst.len(), src.len())
	for _, l := range leaves(sl.Elem()) {
		key := "E:" + typeName(sl.Elem()) + l.path
		a := st.arr(key, l.sort)
		srcRow := Select(a, src.base())
		oldRow := Select(a, dst.base())
		newRow := Fresh("cprow", Arr(BV(64), l.sort))
		j := BVar("j", BV(64))
		x.qfacts = append(x.qfacts, &QFact{seq: x.next(), pc: st.pc, vars: []*Term{j},
			body:   Implies(BVCmp("bvult", j, m), Eq(Select(newRow, BVBin("bvadd", dst.off(), j)), Select(srcRow, BVBin("bvadd", src.off(), j)))),
			origin: "copy/data"})
		k := BVar("k", BV(64))
		x.qfacts = append(x.qfacts, &QFact{seq: x.next(), pc: st.pc, vars: []*Term{k},
			body:   Implies(Or(BVCmp("bvult", k, dst.off()), BVCmp("bvuge", k, BVBin("bvadd", dst.off(), m))), Eq(Select(newRow, k), Select(oldRow, k))),
			origin: "copy/frame"})
		st.setArr(key, Store(a, dst.base(), newRow))
	}
	return scalar(m, resT)
}

// ---------- externals ----------

func (x *fnExec) byteAt(st *State, s Val, i uint64) *Term {
	a := st.arr("E:uint8", BV(8))
	return Select(Select(a, s.base()), BVBin("bvadd", s.off(), BVU(i, 64)))
}

func (x *fnExec) requireLen(fr *frame, st *State, s Val, n uint64, ci ssa.CallInstruction, what string) {
	if fr.safety {
		g := BVCmp("bvsge", s.len(), BVU(n, 64))
		x.obligation(st, x.safetyName("index"), "safe", what+" needs "+fmt.Sprint(n)+" bytes at "+x.P.Fset.Position(ci.Pos()).String()+" in "+funcKey(fr.fn), nil, g, nil, "")
		x.assume(st, g)
	}
}

func (x *fnExec) putBytes(st *State, s Val, bs []*Term) {
	a := st.arr("E:uint8", BV(8))
	row := Select(a, s.base())
	for i, b := range bs {
		row = Store(row, BVBin("bvadd", s.off(), BVU(uint64(i), 64)), b)
	}
	st.setArr("E:uint8", Store(a, s.base(), row))
}

func (x *fnExec) external(fr *frame, st *State, ci ssa.CallInstruction, res ssa.Value, fn *ssa.Function, args []Val, fresh func(string) Val) {
	name := fn.String()
	set := func(v Val) { x.setResult(fr, res, v) }
	rt := fn.Signature.Results()
	var resT types.Type
	if rt.Len() == 1 {
		resT = rt.At(0).Type()
	}
	switch name {
	case "(encoding/binary.bigEndian).Uint16", "(encoding/binary.littleEndian).Uint16":
		s := args[len(args)-1]
		x.requireLen(fr, st, s, 2, ci, name)
		b0, b1 := x.byteAt(st, s, 0), x.byteAt(st, s, 1)
		if strings.Contains(name, "little") {
			b0, b1 = b1, b0
		}
		set(scalar(Concat(b0, b1), resT))
		return
	case "(encoding/binary.bigEndian).Uint32", "(encoding/binary.littleEndian).Uint32":
		s := args[len(args)-1]
		x.requireLen(fr, st, s, 4, ci, name)
		bs := []*Term{x.byteAt(st, s, 0), x.byteAt(st, s, 1), x.byteAt(st, s, 2), x.byteAt(st, s, 3)}
		if strings.Contains(name, "little") {
			bs[0], bs[1], bs[2], bs[3] = bs[3], bs[2], bs[1], bs[0]
		}
		set(scalar(Concat(Concat(bs[0], bs[1]), Concat(bs[2], bs[3])), resT))
		return
	case "(encoding/binary.bigEndian).Uint64":
		s := args[len(args)-1]
		x.requireLen(fr, st, s, 8, ci, name)
		r := x.byteAt(st, s, 0)
		for i := uint64(1); i < 8; i++ {
			r = Concat(r, x.byteAt(st, s, i))
		}
		set(scalar(r, resT))
		return
	case "(encoding/binary.bigEndian).PutUint16", "(encoding/binary.littleEndian).PutUint16":
		s, v := args[len(args)-2], args[len(args)-1].T
		x.requireLen(fr, st, s, 2, ci, name)
		bs := []*Term{Extract(15, 8, v), Extract(7, 0, v)}
		if strings.Contains(name, "little") {
			bs[0], bs[1] = bs[1], bs[0]
		}
		x.putBytes(st, s, bs)
		return
	case "(encoding/binary.bigEndian).PutUint32", "(encoding/binary.littleEndian).PutUint32":
		s, v := args[len(args)-2], args[len(args)-1].T
		x.requireLen(fr, st, s, 4, ci, name)
		bs := []*Term{Extract(31, 24, v), Extract(23, 16, v), Extract(15, 8, v), Extract(7, 0, v)}
		if strings.Contains(name, "little") {
			bs[0], bs[1], bs[2], bs[3] = bs[3], bs[2], bs[1], bs[0]
		}
		x.putBytes(st, s, bs)
		return
	case "(encoding/binary.bigEndian).PutUint64":
		s, v := args[len(args)-2], args[len(args)-1].T
		x.requireLen(fr, st, s, 8, ci, name)
		var bs []*Term
		for i := 7; i >= 0; i-- {
			bs = append(bs, Extract(i*8+7, i*8, v))
		}
		x.putBytes(st, s, bs)
		return
	case "math/bits.TrailingZeros64":
		v := args[0].T
		r := BVU(64, 64)
		for i := 63; i >= 0; i-- {
			r = Ite(Eq(Extract(i, i, v), BVU(1, 1)), BVU(uint64(i), 64), r)
		}
		set(scalar(r, resT))
		return
	case "math/bits.OnesCount64":
		v := args[0].T
		r := BVU(0, 64)
		for i := 0; i < 64; i++ {
			r = BVBin("bvadd", r, ZeroExt(Extract(i, i, v), 64))
		}
		set(scalar(r, resT))
		return
	case "math.Min", "math.Max":
		a, b := args[0].T, args[1].T
		op := "fp.min"
		if name == "math.Max" {
			op = "fp.max"
		}
		// Go: NaN if either is NaN; fp.min/max differ only on NaN and signed zeros; handle NaN explicitly
		isNaN := Or(mk("fp.isNaN", SBool, a), mk("fp.isNaN", SBool, b))
		r := Ite(isNaN, mkN("fpnan", "(_ NaN 11 53)", SFP64), mk(op, SFP64, a, b))
		set(scalar(r, resT))
		return
	case "math.Abs":
		set(scalar(mk("fp.abs", SFP64, args[0].T), resT))
		return
	case "(time.Duration).Seconds":
		// exactly the library's definition: float64(d/1e9) + float64(d%1e9)/1e9
		d := args[0].T
		e9 := BVU(1000000000, 64)
		sec := BVBin("bvsdiv", d, e9)
		nsec := BVBin("bvsrem", d, e9)
		i64, f64 := types.Typ[types.Int64], types.Typ[types.Float64]
		fs := x.convert(scalar(sec, i64), i64, f64).T
		fn := x.convert(scalar(nsec, i64), i64, f64).T
		set(scalar(FPBin("fp.add", fs, FPBin("fp.div", fn, FPLit(1e9))), resT))
		return
	case "math.Inf":
		set(scalar(Ite(BVCmp("bvsge", args[0].T, BVU(0, 64)), mkN("fpnan", "(_ +oo 11 53)", SFP64), mkN("fpnan", "(_ -oo 11 53)", SFP64)), resT))
		return
	case "math.Ceil":
		set(scalar(mkN("fp.rti", "fp.roundToIntegral RTP", SFP64, args[0].T), resT))
		return
	case "math.Floor":
		set(scalar(mkN("fp.rti", "fp.roundToIntegral RTN", SFP64, args[0].T), resT))
		return
	case "bytes.Equal":
		a, b := args[0], args[1]
		r := Fresh("bytesEqual", SBool)
		x.assume(st, Implies(r, Eq(a.len(), b.len())))
		arr := st.arr("E:uint8", BV(8))
		j := BVar("j", BV(64))
		x.qfacts = append(x.qfacts, &QFact{seq: x.next(), pc: And(st.pc, r), vars: []*Term{j},
			body:   Implies(BVCmp("bvult", j, a.len()), Eq(Select(Select(arr, a.base()), BVBin("bvadd", a.off(), j)), Select(Select(arr, b.base()), BVBin("bvadd", b.off(), j)))),
			origin: "bytes.Equal"})
		set(scalar(r, resT))
		return
	case "hash/crc32.Update":
		// uninterpreted function of (crc, table, content): content identified by row contents over [off, off+len)
		// uninterpreted function of (crc, table, contents of p); "content" depends on the row only inside [off, off+len):
		// that frame property is added as peel lemmas over store chains when the query is built (vc.go).
		arr := st.arr("E:uint8", BV(8))
		s := args[2]
		r := App("crc32upd", BV(32), args[0].T, args[1].Ref, App("content", BV(64), Select(arr, s.base()), s.off(), s.len()))
		set(scalar(r, resT))
		return
	case "errors.New", "fmt.Errorf":
		// non-nil error
		v := fresh("err")
		x.assume(st, Not(Eq(v.Fs[0].T, BVU(0, 64))))
		set(v)
		return
	case "errors.Is":
		a, b := args[0], args[1]
		r := App("errorsIs", SBool, a.Fs[0].T, a.Fs[1].T, b.Fs[0].T, b.Fs[1].T)
		x.assume(st, And(Implies(x.valEq(a, b), r), Implies(Eq(a.Fs[0].T, BVU(0, 64)), Or(Not(r), Eq(b.Fs[0].T, BVU(0, 64))))))
		set(scalar(r, resT))
		return
	}
	pkg := ""
	if fn.Pkg != nil {
		pkg = fn.Pkg.Pkg.Path()
	}
	if fn.Pkg == nil && fn.Origin() != nil && fn.Origin().Pkg != nil {
		pkg = fn.Origin().Pkg.Pkg.Path()
	}
	switch {
	case strings.HasPrefix(name, "(*sync.Mutex)."), strings.HasPrefix(name, "(*sync.RWMutex)."):
		// ghost lock state: which mutexes this goroutine holds (no blocking, no interference modelled)
		if len(args) > 0 && args[0].K == VPtr {
			id := mutexID(args[0])
			switch fn.Name() {
			case "Lock", "RLock":
				// re-acquiring a lock this function released earlier: other goroutines may have run in between,
				// so everything the lock protects (conservatively: the whole heap) is unknown again
				rel := Select(st.arr("X:released", SBool), id)
				if rel != False && x.C != nil && x.C.Interference {
					keepHeld, keepRel, keepSends := st.arr("X:held", SBool), st.arr("X:released", SBool), st.arr("X:sends", BV(64))
					hv := st.clone()
					hv.pc = And(st.pc, rel)
					x.havocAll(hv, "lock re-acquired after release in "+funcKey(fr.fn))
					hv.setArr("X:held", keepHeld)
					hv.setArr("X:released", keepRel)
					hv.setArr("X:sends", keepSends)
					same := st.clone()
					same.pc = And(st.pc, Not(rel))
					m := mergeStates([]*Term{hv.pc, same.pc}, []*State{hv, same})
					st.pc, st.heap, st.epoch = m.pc, m.heap, m.epoch
				}
				st.setArr("X:held", Store(st.arr("X:held", SBool), id, True))
			case "Unlock", "RUnlock":
				st.setArr("X:held", Store(st.arr("X:held", SBool), id, False))
				st.setArr("X:released", Store(st.arr("X:released", SBool), id, True))
			}
		}
		set(fresh("mutex"))
		return
	case strings.HasPrefix(name, "(*sync/atomic."), strings.HasPrefix(name, "sync/atomic."):
		x.atomicOp(fr, st, res, fn, args, fresh)
		return
	case name == "sort.Search":
		v := fresh("search")
		if v.K == VScalar && len(args) > 0 {
			x.assume(st, And(BVCmp("bvsge", v.T, BVU(0, 64)), BVCmp("bvsle", v.T, args[0].T)))
		}
		set(v)
		return
	case pkg == "sort" || strings.HasPrefix(name, "slices.Sort"):
		// permutes the slice argument: elements unknown afterwards (see sortcmp.go for what is checked and kept)
		sc := x.sortComparator(fr, ci, name)
		if sc != nil {
			x.sortCmpCheck(fr, st, ci, sc)
			defer func() { x.sortedFact(fr, st, sc) }()
		} else {
			// nothing is known about the order of the result: counts as an abstracted callee (a postcondition that fails
			// only after such a call appeared is undecided, not a violation)
			x.abstracted[name+" (comparator not recognised: order of the result unknown)"] = true
		}
		for i, a := range args {
			if a.K == VSlice {
				if sl, ok := fn.Params[i].Type().Underlying().(*types.Slice); ok {
					for _, l := range leaves(sl.Elem()) {
						key := "E:" + typeName(sl.Elem()) + l.path
						arr := st.arr(key, l.sort)
						st.setArr(key, Store(arr, a.base(), Fresh("sorted", Arr(BV(64), l.sort))))
					}
					continue
				}
			}
			if a.K == VIface {
				// sort.Slice(x any, less): x boxes a slice; the boxed slice value is not tracked: havoc every element array of that type
				if mi, ok := ci.Common().Args[i].(*ssa.MakeInterface); ok {
					if sl, ok := mi.X.Type().Underlying().(*types.Slice); ok {
						sv := x.val(fr, mi.X)
						for _, l := range leaves(sl.Elem()) {
							key := "E:" + typeName(sl.Elem()) + l.path
							arr := st.arr(key, l.sort)
							st.setArr(key, Store(arr, sv.base(), Fresh("sorted", Arr(BV(64), l.sort))))
						}
						continue
					}
				}
				x.havocAll(st, "sort with opaque argument: "+name)
				break
			}
		}
		set(fresh("sort"))
		return
	case pureExternalPkgs[pkg]:
		x.assumed["external "+name+": no effect on SCTP state, result unconstrained"] = true
		// externals that write through byte-slice arguments
		if strings.Contains(name, "Read") || strings.Contains(name, "Put") || strings.Contains(name, "Encode") || strings.Contains(name, "Write") {
			for _, a := range args {
				if a.K == VSlice {
					arr := st.arr("E:uint8", BV(8))
					st.setArr("E:uint8", Store(arr, a.base(), Fresh("extbytes", Arr(BV(64), BV(8)))))
				}
			}
		}
		v := fresh("ext_" + fn.Name())
		x.constrainFresh(st, v)
		set(v)
		return
	}
	x.havocAll(st, "external call "+name)
	set(fresh("ext"))
}

// constrainFresh adds well-formedness facts for unknown slice results.
func (x *fnExec) constrainFresh(st *State, v Val) {
	// whatever object a value existing now refers to, an allocation made later is a different one
	x.recordRefs(v)
	switch v.K {
	case VSlice:
		x.assume(st, sliceWF(v))
	case VTuple, VStruct:
		for _, f := range v.Fs {
			x.constrainFresh(st, f)
		}
	}
}

func (x *fnExec) atomicOp(fr *frame, st *State, res ssa.Value, fn *ssa.Function, args []Val, fresh func(string) Val) {
	name := fn.String()
	// typed atomics: (*sync/atomic.Uint32).Load etc.  Receiver is pointer to struct{_ noCopy; v uint32}
	recv := args[0]
	method := fn.Name()
	var cellT types.Type
	if strings.HasPrefix(name, "(*sync/atomic.") {
		st0, ok := fn.Signature.Recv().Type().Underlying().(*types.Pointer).Elem().Underlying().(*types.Struct)
		if ok {
			for i := 0; i < st0.NumFields(); i++ {
				if st0.Field(i).Name() == "v" {
					cellT = st0.Field(i).Type()
				}
			}
		}
		if cellT == nil || recv.K != VPtr {
			x.setResult(fr, res, fresh("atomic"))
			return
		}
		cell := Val{K: VPtr, Prefix: recv.Prefix + ".v", Ref: recv.Ref, Idx: recv.Idx}
		if _, isPtr := cellT.Underlying().(*types.Pointer); isPtr || len(leaves(cellT)) != 1 {
			x.setResult(fr, res, fresh("atomic"))
			return
		}
		switch method {
		case "Load":
			v := x.load(st, cell, cellT)
			rt := fn.Signature.Results().At(0).Type()
			if b, ok := rt.Underlying().(*types.Basic); ok && b.Kind() == types.Bool {
				x.setResult(fr, res, scalar(Not(Eq(v.T, zeroTerm(v.T.S))), rt))
			} else {
				x.setResult(fr, res, retype(v, rt))
			}
		case "Store":
			v := args[1]
			if v.T.S == SBool {
				v = scalar(Ite(v.T, BVU(1, 32), BVU(0, 32)), cellT)
			}
			x.store(st, cell, cellT, v)
		case "Add":
			old := x.load(st, cell, cellT)
			nv := scalar(BVBin("bvadd", old.T, args[1].T), cellT)
			x.store(st, cell, cellT, nv)
			x.setResult(fr, res, nv)
		case "Swap":
			old := x.load(st, cell, cellT)
			v := args[1]
			if v.T.S == SBool {
				v = scalar(Ite(v.T, BVU(1, 32), BVU(0, 32)), cellT)
				x.setResult(fr, res, scalar(Not(Eq(old.T, zeroTerm(old.T.S))), nil))
			} else {
				x.setResult(fr, res, old)
			}
			x.store(st, cell, cellT, v)
		case "CompareAndSwap":
			old := x.load(st, cell, cellT)
			ov, nv := args[1], args[2]
			if ov.T.S == SBool {
				ov = scalar(Ite(ov.T, BVU(1, 32), BVU(0, 32)), cellT)
				nv = scalar(Ite(nv.T, BVU(1, 32), BVU(0, 32)), cellT)
			}
			ok := Eq(old.T, ov.T)
			x.store(st, cell, cellT, scalar(Ite(ok, nv.T, old.T), cellT))
			x.setResult(fr, res, scalar(ok, nil))
		default:
			x.setResult(fr, res, fresh("atomic"))
		}
		return
	}
	// function-style atomics on *uint32 etc.
	if recv.K == VPtr {
		pt := fn.Params[0].Type().Underlying().(*types.Pointer).Elem()
		switch {
		case strings.HasPrefix(method, "Load"):
			x.setResult(fr, res, x.load(st, recv, pt))
			return
		case strings.HasPrefix(method, "Store"):
			x.store(st, recv, pt, args[1])
			return
		case strings.HasPrefix(method, "Add"):
			old := x.load(st, recv, pt)
			nv := scalar(BVBin("bvadd", old.T, args[1].T), pt)
			x.store(st, recv, pt, nv)
			x.setResult(fr, res, nv)
			return
		case strings.HasPrefix(method, "CompareAndSwap"):
			old := x.load(st, recv, pt)
			ok := Eq(old.T, args[1].T)
			x.store(st, recv, pt, scalar(Ite(ok, args[2].T, old.T), pt))
			x.setResult(fr, res, scalar(ok, nil))
			return
		case strings.HasPrefix(method, "Swap"):
			old := x.load(st, recv, pt)
			x.store(st, recv, pt, args[1])
			x.setResult(fr, res, old)
			return
		}
	}
	x.setResult(fr, res, fresh("atomic"))
}

// ---------- interface invoke ----------

func (x *fnExec) invoke(fr *frame, st *State, ci ssa.CallInstruction, res ssa.Value, recv Val, args []Val, fresh func(string) Val) {
	cc := ci.Common()
	rt := cc.Value.Type()
	owner := ifaceOwnerPkg(rt)
	key := typeName(rt) + "." + cc.Method.Name()
	x.atCall(fr, st, ci, key, append([]Val{recv}, args...))
	if fr.safety && owner == "github.com/pion/sctp" {
		g := Not(Eq(recv.Fs[0].T, BVU(0, 64)))
		x.obligation(st, x.safetyName("nil"), "safe", "method call on nil interface at "+x.P.Fset.Position(ci.Pos()).String()+" in "+funcKey(fr.fn), nil, g, nil, "")
		x.assume(st, g)
	}
	if owner == "github.com/pion/sctp" && x.devirtualise(fr, st, ci, res, recv, args, fresh) {
		return
	}
	e := &effectSet{keys: map[string]bool{}}
	x.P.invokeEffects(cc, e)
	if owner != "github.com/pion/sctp" {
		x.assumed["calls through external interface "+typeName(rt)+" do not modify SCTP state"] = true
	}
	x.applyEffects(st, e, "invoke "+key, nil, nil)
	v := fresh("inv_" + cc.Method.Name())
	x.constrainFresh(st, v)
	if cc.Method.Name() == "Error" {
		// error strings irrelevant
	}
	x.setResult(fr, res, v)
}

// ---------- at-call assertions ----------

func (x *fnExec) atCall(fr *frame, st *State, ci ssa.CallInstruction, calleeKey string, args []Val) {
	if fr.C == nil || fr.inline {
		return
	}
	for _, ac := range fr.C.AtCalls {
		if ac.Callee != calleeKey {
			continue
		}
		if ac.Ordinal > 0 && x.siteOrdinal(fr.fn, "call", calleeKey, ci.Pos()) != ac.Ordinal {
			continue
		}
		x.atCallHits[ac]++
		cl := *ac.Clause // copy: bound per site
		clp := &cl
		pos := ci.Pos()
		if !pos.IsValid() {
			x.errors = append(x.errors, fmt.Sprintf("at call %s in %s: call site has no position", calleeKey, fr.C.Key))
			continue
		}
		clp.Bound = append([]BoundVar(nil), ac.Clause.Bound...)
		// extra pseudo-parameters: arg0..argN with the callee's argument types
		var extra []string
		cc := ci.Common()
		var argTypes []types.Type
		if cc.IsInvoke() {
			argTypes = append(argTypes, cc.Value.Type())
		}
		for _, a := range cc.Args {
			argTypes = append(argTypes, a.Type())
		}
		for i, t := range argTypes {
			extra = append(extra, fmt.Sprintf("arg%d %s", i, types.TypeString(t, x.P.qualifier)))
		}
		x.P.bindClauseAt(fr.C, clp, pos, extra)
		if clp.Info == nil {
			x.errors = append(x.errors, fmt.Sprintf("at call %s in %s: %v", calleeKey, fr.C.Key, clp.Err))
			continue
		}
		vars := copyVars(fr.vars)
		for _, pv := range clp.litParams() {
			if pv == nil {
				continue
			}
			var k int
			if _, err := fmt.Sscanf(pv.Name(), "arg%d", &k); err == nil && strings.HasPrefix(pv.Name(), "arg") && k < len(args) {
				vars[pv] = args[k]
			}
		}
		env := &specEnv{x: x, vars: vars, cur: st, old: fr.entry, info: clp.Info, fr: fr, at: ci}
		goal, hyp, sk := env.clauseGoal(clp)
		o := x.obligation(st, fr.C.Key+":at call "+calleeKey+":assert#"+clp.Label, "assert", "call at "+x.P.Fset.Position(pos).String(), clauseTags(fr.C, clp), goal, hyp, clp.Src)
		o.skolems = sk
	}
}

// atStore emits the obligations of "at store Type.field assert" clauses for one store instruction.
func (x *fnExec) atStore(fr *frame, st *State, s *ssa.Store, p Val, v Val) {
	if fr.C == nil || fr.inline || len(fr.C.AtStores) == 0 {
		return
	}
	for _, ac := range fr.C.AtStores {
		if os.Getenv("SCTPVC_DEBUG") != "" {
			fmt.Fprintf(os.Stderr, "ATSTORE prefix=%s want=F:%s ordinal=%d got=%d\n", p.Prefix, ac.Callee, ac.Ordinal, x.siteOrdinal(fr.fn, "store", ac.Callee, s.Pos()))
		}
		if strings.HasPrefix(ac.Callee, "map:") || p.Prefix != "F:"+ac.Callee {
			continue
		}
		if ac.Ordinal > 0 && x.siteOrdinal(fr.fn, "store", ac.Callee, s.Pos()) != ac.Ordinal {
			continue
		}
		x.atCallHits[ac]++
		cl := *ac.Clause
		clp := &cl
		clp.Bound = append([]BoundVar(nil), ac.Clause.Bound...)
		pos := s.Pos()
		if !pos.IsValid() {
			x.errors = append(x.errors, fmt.Sprintf("at store %s in %s: store has no position", ac.Callee, fr.C.Key))
			continue
		}
		vt := s.Val.Type()
		ptrT := types.NewPointer(types.Typ[types.Int])
		_ = ptrT
		extra := []string{"stored " + types.TypeString(vt, x.P.qualifier)}
		x.P.bindClauseAt(fr.C, clp, pos, extra)
		if clp.Info == nil {
			x.errors = append(x.errors, fmt.Sprintf("at store %s in %s: %v", ac.Callee, fr.C.Key, clp.Err))
			continue
		}
		vars := copyVars(fr.vars)
		for _, pv := range clp.litParams() {
			if pv != nil && pv.Name() == "stored" {
				vars[pv] = v
			}
		}
		env := &specEnv{x: x, vars: vars, cur: st, old: fr.entry, info: clp.Info, fr: fr, at: s}
		goal, hyp, sk := env.clauseGoal(clp)
		o := x.obligation(st, fr.C.Key+":at store "+ac.Callee+":assert#"+clp.Label, "assert", "store at "+x.P.Fset.Position(pos).String(), clauseTags(fr.C, clp), goal, hyp, clp.Src)
		o.skolems = sk
		if hasTag(clp.Tags, "LEMMA") {
			// asserted, then available: the assertion is a hypothesis for everything after this store
			vars2 := copyVars(fr.vars)
			for _, pv := range clp.litParams() {
				if pv != nil && pv.Name() == "stored" {
					vars2[pv] = v
				}
			}
			env2 := &specEnv{x: x, vars: vars2, cur: st, old: fr.entry, info: clp.Info, fr: fr, at: s}
			env2.assumeClause(clp, st)
		}
	}
}

// possibleTags returns the literal type tags a tag term can take (ite tree over literals), or false.
func possibleTags(t *Term, out map[int]*Term) bool {
	switch t.Op {
	case "lit":
		out[t.id] = t
		return true
	case "ite":
		return possibleTags(t.Args[1], out) && possibleTags(t.Args[2], out)
	}
	return false
}

// devirtualise resolves an interface method call whose receiver's dynamic type is known (a finite set of
// in-package types) into static calls of the implementing methods, one per possible type, and merges the results.
func (x *fnExec) devirtualise(fr *frame, st *State, ci ssa.CallInstruction, res ssa.Value, recv Val, args []Val, fresh func(string) Val) bool {
	cc := ci.Common()
	tags := map[int]*Term{}
	if !possibleTags(recv.Fs[0].T, tags) || len(tags) == 0 || len(tags) > 24 {
		// closed world: an interface with unexported methods can only be implemented inside the package
		tags = map[int]*Term{}
		iface, _ := cc.Value.Type().Underlying().(*types.Interface)
		if iface == nil || !ifaceSealed(iface) {
			return false
		}
		n := 0
		for _, m := range x.P.SSA.Members {
			tn, ok := m.(*ssa.Type)
			if !ok {
				continue
			}
			for _, t := range []types.Type{types.NewPointer(tn.Type())} {
				if _, isI := tn.Type().Underlying().(*types.Interface); isI {
					continue
				}
				if types.Implements(t, iface) {
					// only when every implementation is small enough to be executed inline
					ms := x.P.Prog.MethodSets.MethodSet(t)
					sel := ms.Lookup(x.P.Pkg.Types, cc.Method.Name())
					if sel == nil {
						return false
					}
					f := x.P.Prog.MethodValue(sel)
					if f == nil || !x.smallLeaf(f, 0) {
						return false
					}
					tg := x.typeTag(t)
					tags[tg.id] = tg
					n++
				}
			}
		}
		if n == 0 || n > 16 {
			return false
		}
		x.assumed["closed world for interface "+typeName(cc.Value.Type())+": only in-package pointer types implement it (unexported methods)"] = true
	}
	type alt struct {
		tag *Term
		fn  *ssa.Function
		rt  types.Type
	}
	var alts []alt
	for _, t := range tags {
		if t.Lit.Sign() == 0 {
			continue // nil interface: excluded by the nil-receiver obligation
		}
		rt := x.P.tagTypes[int(t.Lit.Int64())]
		if rt == nil {
			return false
		}
		ms := x.P.Prog.MethodSets.MethodSet(rt)
		sel := ms.Lookup(x.P.Pkg.Types, cc.Method.Name())
		if sel == nil {
			sel = ms.Lookup(nil, cc.Method.Name())
		}
		if sel == nil {
			return false
		}
		f := x.P.Prog.MethodValue(sel)
		if f == nil || len(f.Blocks) == 0 {
			return false
		}
		alts = append(alts, alt{t, f, rt})
	}
	if len(alts) == 0 {
		return false
	}
	sort.Slice(alts, func(i, j int) bool { return alts[i].tag.Lit.Cmp(alts[j].tag.Lit) < 0 })
	var conds []*Term
	var sts []*State
	var vals []Val
	for _, a := range alts {
		s := st.clone()
		s.pc = And(st.pc, Eq(recv.Fs[0].T, a.tag))
		if s.pc == False {
			continue
		}
		var rv Val
		switch u := a.rt.Underlying().(type) {
		case *types.Pointer:
			rv = Val{K: VPtr, Prefix: canonPrefix(u.Elem()), Ref: recv.Fs[1].T, Ty: a.rt}
		default:
			return false // value receivers boxed in interfaces are not tracked
		}
		x.staticCall(fr, s, ci, res, a.fn, append([]Val{rv}, args...), fresh)
		if s.pc == False {
			continue
		}
		conds = append(conds, s.pc)
		sts = append(sts, s)
		if res != nil {
			vals = append(vals, fr.env[res])
		}
	}
	if len(sts) == 0 {
		st.pc = False
		x.setResult(fr, res, fresh("noreturn"))
		return true
	}
	m := mergeStates(conds, sts)
	st.pc, st.heap, st.epoch = m.pc, m.heap, m.epoch
	if res != nil {
		v := vals[len(vals)-1]
		for i := len(vals) - 2; i >= 0; i-- {
			v = iteVal(conds[i], vals[i], v)
		}
		fr.env[res] = v
	}
	return true
}

// ifaceSealed reports whether the interface has an unexported method, so that only types declared in the
// package (or types embedding one of them) can implement it.
func ifaceSealed(iface *types.Interface) bool {
	for i := 0; i < iface.NumMethods(); i++ {
		if !iface.Method(i).Exported() {
			return true
		}
	}
	return false
}

// sealedImplementers lists the in-package pointer types implementing a sealed interface.
func (x *fnExec) sealedImplementers(iface *types.Interface) []types.Type {
	var out []types.Type
	if !ifaceSealed(iface) {
		return nil
	}
	var names []string
	for n := range x.P.SSA.Members {
		names = append(names, n)
	}
	sort.Strings(names)
	for _, n := range names {
		tn, ok := x.P.SSA.Members[n].(*ssa.Type)
		if !ok {
			continue
		}
		if _, isI := tn.Type().Underlying().(*types.Interface); isI {
			continue
		}
		t := types.NewPointer(tn.Type())
		if types.Implements(t, iface) {
			out = append(out, t)
		}
	}
	return out
}

// smallLeaf reports whether fn (and the static callees it reaches) is loop-free and tiny.
func (x *fnExec) smallLeaf(fn *ssa.Function, depth int) bool {
	if depth > 3 || len(fn.Blocks) == 0 || instrCount(fn) > 40 || len(findLoops(fn)) > 0 {
		return false
	}
	for _, b := range fn.Blocks {
		for _, in := range b.Instrs {
			switch t := in.(type) {
			case *ssa.Go, *ssa.Select, *ssa.Send, *ssa.MakeClosure, *ssa.Defer:
				return false
			case *ssa.Call:
				if t.Call.IsInvoke() {
					return false
				}
				if f := t.Call.StaticCallee(); f != nil && x.P.inPackage(f) {
					if !x.smallLeaf(f, depth+1) {
						return false
					}
				}
			}
		}
	}
	return true
}

// mutexID identifies a mutex by the field it lives in and its owner object.
func mutexID(p Val) *Term {
	return App("mutex_"+p.Prefix, SRef, p.Ref)
}

// callKey is the contract-language name of the callee of a call instruction.
func (x *fnExec) callKey(ci ssa.CallInstruction) string {
	cc := ci.Common()
	if cc.IsInvoke() {
		return typeName(cc.Value.Type()) + "." + cc.Method.Name()
	}
	switch f := cc.Value.(type) {
	case *ssa.Function:
		if x.P.inPackage(f) {
			return funcKey(f)
		}
		return extName(f)
	case *ssa.Builtin:
		return f.Name()
	case *ssa.MakeClosure:
		if fn, ok := f.Fn.(*ssa.Function); ok {
			return funcKey(fn)
		}
	}
	return "funcvalue"
}

// siteOrdinal returns the 1-based rank, in source order, of the call/store site at pos among the sites of the
// same callee/field in fn.
func (x *fnExec) siteOrdinal(fn *ssa.Function, kind, key string, pos tokenPos) int {
	var ps []int
	for _, b := range fn.Blocks {
		for _, in := range b.Instrs {
			switch t := in.(type) {
			case ssa.CallInstruction:
				if kind == "call" && x.callKey(t) == key && t.Pos().IsValid() {
					ps = append(ps, int(t.Pos()))
				}
			case *ssa.Store:
				if kind == "store" && staticAddrPrefix(t.Addr) == "F:"+key && t.Pos().IsValid() {
					ps = append(ps, int(t.Pos()))
				}
			}
		}
	}
	sort.Ints(ps)
	for i, p := range ps {
		if p == int(pos) {
			return i + 1
		}
	}
	return -1
}

// atMapUpdate emits "at mapupdate <local map variable> assert" obligations (pseudo-variables key and stored).
func (x *fnExec) atMapUpdate(fr *frame, st *State, mu *ssa.MapUpdate) {
	if fr.C == nil || fr.inline || len(fr.C.AtStores) == 0 {
		return
	}
	names := debugNames(fr.fn)[mu.Map]
	for _, ac := range fr.C.AtStores {
		if !strings.HasPrefix(ac.Callee, "map:") {
			continue
		}
		want := strings.TrimPrefix(ac.Callee, "map:")
		match := false
		// a map held in a struct field is named Type.field
		if ld, ok := mu.Map.(*ssa.UnOp); ok && ld.Op == token.MUL {
			if fa, ok := ld.X.(*ssa.FieldAddr); ok {
				st := fa.X.Type().Underlying().(*types.Pointer).Elem()
				if typeName(st)+"."+st.Underlying().(*types.Struct).Field(fa.Field).Name() == want {
					match = true
				}
			}
		}
		for _, n := range names {
			if n == want {
				match = true
			}
		}
		if !match {
			continue
		}
		x.atCallHits[ac]++
		cl := *ac.Clause
		clp := &cl
		clp.Bound = append([]BoundVar(nil), ac.Clause.Bound...)
		pos := mu.Pos()
		if !pos.IsValid() {
			x.errors = append(x.errors, fmt.Sprintf("at mapupdate %s in %s: no position", want, fr.C.Key))
			continue
		}
		extra := []string{"key " + types.TypeString(mu.Key.Type(), x.P.qualifier), "stored " + types.TypeString(mu.Value.Type(), x.P.qualifier)}
		x.P.bindClauseAt(fr.C, clp, pos, extra)
		if clp.Info == nil {
			x.errors = append(x.errors, fmt.Sprintf("at mapupdate %s in %s: %v", want, fr.C.Key, clp.Err))
			continue
		}
		vars := copyVars(fr.vars)
		for _, pv := range clp.litParams() {
			if pv == nil {
				continue
			}
			switch pv.Name() {
			case "key":
				vars[pv] = x.val(fr, mu.Key)
			case "stored":
				vars[pv] = x.val(fr, mu.Value)
			}
		}
		env := &specEnv{x: x, vars: vars, cur: st, old: fr.entry, info: clp.Info, fr: fr, at: mu}
		goal, hyp, sk := env.clauseGoal(clp)
		o := x.obligation(st, fr.C.Key+":at mapupdate "+want+":assert#"+clp.Label, "assert", "map update at "+x.P.Fset.Position(pos).String(), clauseTags(fr.C, clp), goal, hyp, clp.Src)
		o.skolems = sk
	}
}

// atReturn emits "at return assert" obligations: like postconditions, but the function's locals are visible.
func (x *fnExec) atReturn(fr *frame, st *State, ret *ssa.Return, rv Val) {
	if fr.C == nil || fr.inline || fr.depth != 0 || len(fr.C.AtReturns) == 0 {
		return
	}
	pos := ret.Pos()
	if !pos.IsValid() {
		if fd := fr.C.Decl; fd != nil && fd.Body != nil {
			pos = fd.Body.Rbrace
		}
	}
	for _, c0 := range fr.C.AtReturns {
		cl := *c0
		clp := &cl
		clp.Bound = append([]BoundVar(nil), c0.Bound...)
		var extra []string
		res := fr.fn.Signature.Results()
		for i := 0; i < res.Len(); i++ {
			v := res.At(i)
			if v.Name() != "" && v.Name() != "_" {
				continue
			}
			name := "result"
			if res.Len() > 1 {
				name = fmt.Sprintf("result%d", i)
			}
			extra = append(extra, name+" "+types.TypeString(v.Type(), x.P.qualifier))
		}
		x.P.bindClauseAt(fr.C, clp, pos, extra)
		if clp.Info == nil {
			x.errors = append(x.errors, fmt.Sprintf("at return in %s: %v", fr.C.Key, clp.Err))
			continue
		}
		vars := copyVars(fr.vars)
		x.bindResults(vars, fr.fn, clp, rv)
		env := &specEnv{x: x, vars: vars, cur: st, old: fr.entry, info: clp.Info, fr: fr, at: ret}
		goal, hyp, sk := env.clauseGoal(clp)
		o := x.obligation(st, fr.C.Key+":at return:assert#"+clp.Label, "assert", "return at "+x.P.Fset.Position(pos).String(), clauseTags(fr.C, clp), goal, hyp, clp.Src)
		o.skolems = sk
	}
}
