#!/bin/bash
# usage: mkseed.sh <Cxx> <N> — prepares /tmp/seedwt-Cxx-sN (copy of /repo HEAD without the verif files, own git repo) and /tmp/seedprompt-Cxx.txt
p=$1; n=$2; wt=/tmp/seedwt-$p-s$n
rm -rf $wt; mkdir -p $wt
(cd /repo && git ls-files | grep -v '^verif_' | rsync -a --files-from=- . $wt/)
(cd $wt && git init -q && git add -A && git -c user.name=x -c user.email=x@x commit -qm base)
python3 - "$p" "$n" <<'PY'
import json,sys,glob
p,n=sys.argv[1],sys.argv[2]
prop=None
for l in open('/verif/properties.jsonl'):
    d=json.loads(l)
    if d['id']==p: prop=d
title=prop.get('title') or prop.get('name') or ''
text=prop.get('statement') or prop.get('description') or prop.get('text') or ''
quant=(prop.get('quantifier') or {}).get('text','')
prev=[]
for m in sorted(glob.glob('/verif/seeded/%s-s*/meta.json'%p)):
    s=json.load(open(m))['summary']
    prev.append('- '+s.split('. ')[0][:400])
tpl=open('/verif/tools/seedprompt_template.txt').read()
head=tpl[:tpl.index('"C10 —')]
tail=tpl[tpl.index('The change should look like a plausible'):]
body='"%s — %s %s%s"\n\nChanges of this kind that have ALREADY been made by others — do something different, in a different function or a different clause of the property:\n%s\n'%(p,title+'.' if title and not title.endswith('.') else title,text,(' ('+quant+').') if quant else '', '\n'.join(prev))
out=(head+body+tail).replace('C10-s5','%s-s%s'%(p,n)).replace('TestSeedC10_','TestSeed%s_'%p).replace('"property":"C10"','"property":"%s"'%p)
open('/tmp/seedprompt-%s.txt'%p,'w').write(out)
PY
echo prepared $wt
