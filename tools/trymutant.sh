#!/bin/bash
# usage: trymutant.sh <patch.diff> <Cxx> [more props]  — applies the patch to /repo, runs the checks, reverts.
patch=$(realpath "$1"); shift
cd /repo || exit 2
if [ -n "$(git status --porcelain --untracked-files=no)" ]; then echo "/repo has uncommitted tracked changes; refusing"; exit 2; fi
git apply "$patch" || { echo "patch does not apply"; exit 2; }
trap 'git -C /repo checkout -- . ' EXIT
for p in "$@"; do
  echo "--- $p"
  out=$(cd /verif && SCTPVC_EVIDENCE_DIR=/tmp/mut-evidence ./check $p --tier quick 2>&1; echo "exit=$?")
  echo "$out" | grep -E "VIOLATION|UNDECIDED|KNOWN|^property=|^exit="
done
