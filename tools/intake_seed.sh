#!/bin/bash
# usage: intake_seed.sh <Cxx-sN> — confirms /tmp/seedwt-<id>/_out on a scratch copy of /repo HEAD, stores it under /verif/seeded/<id>/ if confirmed
id=$1; prop=${id%%-*}; src=/tmp/seedwt-$id/_out
[ -f $src/patch.diff ] || { echo "$id: no patch"; exit 1; }
res=$(/verif/tools/verify_seed2.sh $src $prop 2>&1 | tail -1)
echo "$id: $res"
case "$res" in
  *"suite=PASS"*"demo_with_patch=FAIL demo_without_patch=PASS"*) ;;
  *) echo "$id: NOT confirmed"; exit 1;;
esac
mkdir -p /verif/seeded/$id
cp $src/patch.diff /verif/seeded/$id/patch.diff; cp $src/demo_test.go /verif/seeded/$id/demo_test.go
python3 - <<PY
import json
m=json.load(open('$src/meta.json'))
m['origin']='independent sub-agent given only the property text, the one-line summaries of earlier changes for that property (to avoid repeats) and a scratch copy of the library (no verif files, nothing from /verif)'
m['confirmed_by_me']={'ran':'tools/verify_seed2.sh on a scratch copy of /repo HEAD: git apply, go build, gofmt -l, full suite (go test -vet=off -count=1 ./...), demo with patch, demo without patch','result':'$res'}
json.dump(m,open('/verif/seeded/$id/meta.json','w'),indent=1)
PY
rm -rf /tmp/seedwt-$id
