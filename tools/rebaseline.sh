#!/bin/bash
# Regenerates /verif/baseline/obligations.json from /repo's working tree: everything at the quick budget, then the
# functions whose slowest obligations need more time (they become proved-slow = claimed by the thorough tier only).
cd /verif && bin/sctpvc baseline -limit 45 "$@" && bin/sctpvc baseline -limit 45 -t 90 -j 3 -f 'receivePayloadQueue.getGapAckBlocks$'
