#!/bin/bash
# Regenerates /verif/baseline/obligations.json from /repo's working tree: everything at the quick budget, then the
# functions whose slowest obligations need more time (they become proved-slow = claimed by the thorough tier only).
cd /verif && bin/sctpvc baseline -limit 45 "$@" && bin/sctpvc baseline -limit 45 -t 90 -j 3 -f 'receivePayloadQueue.getGapAckBlocks$'
# P5b of getGapAckBlocks sits at the edge of the quick budget (proved in 30-60 s depending on load): keep it proved-slow by hand if this run says proved
