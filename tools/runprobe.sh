#!/bin/bash
# usage: runprobe.sh <file_test.go.txt> [repo]  — runs an in-package test file against the repo through -overlay.
f=$(realpath "$1"); repo=${2:-/repo}
d=$(mktemp -d); trap 'rm -rf $d' EXIT
cp "$f" $d/zz_probe_test.go
echo "{\"Replace\":{\"$repo/zz_probe_test.go\":\"$d/zz_probe_test.go\"}}" > $d/ov.json
cd $repo && GOFLAGS=-mod=mod GOPROXY=off go test -overlay $d/ov.json -vet=off -count=1 -timeout 120s -run 'TestFinding|TestProbe' -v . 2>&1 | grep -v "^=== " | tail -${TAILN:-15}
