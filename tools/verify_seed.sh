#!/bin/bash
# usage: verify_seed.sh <seeddir containing patch.diff demo_test.go meta.json> <outfile>
# Confirms in a scratch worktree: patch applies, builds, gofmt clean, full suite passes, demo fails with patch, demo passes without.
set -u
export GOFLAGS=-mod=mod GOPROXY=off
d=$1; out=$2
wt=$(mktemp -d /tmp/seedverify.XXXXXX)
trap 'git -C /repo worktree remove --force "$wt" >/dev/null 2>&1; rm -rf "$wt"' EXIT
git -C /repo worktree add --detach "$wt" 593c752 >/dev/null 2>&1 || { echo "worktree failed" > $out; exit 2; }
cd "$wt"
r() { echo "$@" >> "$out"; }
: > "$out"
git apply "$d/patch.diff" 2>>"$out" || { r "RESULT apply=FAIL"; exit 1; }
go build ./... 2>>"$out" || { r "RESULT build=FAIL"; exit 1; }
fmtout=$(gofmt -l . | grep -v '^verif_' ); [ -z "$fmtout" ] || { r "RESULT gofmt=FAIL $fmtout"; }
suite=PASS
go test -vet=off -count=1 -timeout 25m ./... > suite.log 2>&1 || suite=FAIL
if [ $suite = FAIL ]; then
  # retry once the failing tests (timing-sensitive)
  grep -E '^--- FAIL' suite.log >> "$out"
  go test -vet=off -count=1 -timeout 25m ./... > suite2.log 2>&1 && suite=PASS-ON-RETRY
fi
cp "$d/demo_test.go" ./zz_seed_demo_test.go
pid=$(basename $(dirname $d))
demo_with=PASS
go test -vet=off -count=1 -timeout 5m -run "TestSeed${pid}_" . > demo_with.log 2>&1 || demo_with=FAIL
git checkout -- . 
demo_without=PASS
go test -vet=off -count=1 -timeout 5m -run "TestSeed${pid}_" . > demo_without.log 2>&1 || demo_without=FAIL
tail -3 demo_with.log >> "$out"
r "RESULT suite=$suite demo_with_patch=$demo_with demo_without_patch=$demo_without"
