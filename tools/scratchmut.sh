#!/bin/bash
# usage: scratchmut.sh <patch.diff> <dev -f regex> [timeout]  — runs the dev engine on a scratch copy of /repo's working tree with the patch applied
set -e
p=$(realpath "$1")
d=$(mktemp -d /tmp/scratchmut.XXXX)
trap 'cd /; rm -rf "$d"' EXIT
cd /repo && git ls-files -z | xargs -0 cp --parents -t "$d"
cp /repo/verif_*.go "$d"/
cd "$d" && patch -p1 -s < "$p"
BIN=${SCTPVC:-/verif/bin/sctpvc}
$BIN dev -repo "$d" -f "$2" -t "${3:-20}" 2>&1
