#!/bin/bash
# usage: verify_seed2.sh <dir with patch.diff demo_test.go meta.json> <Cxx> — confirms a seeded change on a scratch copy of /repo's HEAD:
# applies, builds, gofmt-clean, the whole unedited suite passes, the demonstration fails with the change and passes without.
set -u
export GOFLAGS=-mod=mod GOPROXY=off
d=$(realpath $1); prop=$2
wt=$(mktemp -d /tmp/seedverify.XXXXXX)
trap 'rm -rf "$wt"' EXIT
git -C /repo archive HEAD | tar -x -C $wt
cd $wt && git init -q && git add -A && git -c user.email=x@x -c user.name=x commit -qm base
git apply "$d/patch.diff" || { echo "RESULT apply=FAIL"; exit 1; }
go build ./... || { echo "RESULT build=FAIL"; exit 1; }
fmtout=$(gofmt -l . | grep -v '^verif_'); [ -z "$fmtout" ] || echo "gofmt: $fmtout"
suite=PASS
go test -vet=off -count=1 -timeout 25m ./... > suite.log 2>&1 || suite=FAIL
if [ $suite = FAIL ]; then grep -E '^--- FAIL' suite.log; go test -vet=off -count=1 -timeout 25m ./... > suite2.log 2>&1 && suite=PASS-ON-RETRY; fi
cp "$d/demo_test.go" ./zz_seed_demo_test.go
with=PASS; go test -vet=off -count=1 -timeout 5m -run "TestSeed${prop}_" . > with.log 2>&1 || with=FAIL
git checkout -q -- .
without=PASS; go test -vet=off -count=1 -timeout 5m -run "TestSeed${prop}_" . > without.log 2>&1 || without=FAIL
grep -E "^(--- FAIL|ok|FAIL)" with.log | head -5
echo "RESULT suite=$suite demo_with_patch=$with demo_without_patch=$without"
