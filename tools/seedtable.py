#!/usr/bin/env python3
# Regenerates section 11 of DESIGN.md from seeded/*/meta.json and seeded/RESULTS.txt (later lines of RESULTS override earlier ones).
import json,re,os,collections
res={}
for line in open('/verif/seeded/RESULTS.txt'):
    parts=line.split(None,3)
    if len(parts)<3: continue
    sid,prop,verdict=parts[0],parts[1],parts[2]
    rest=parts[3] if len(parts)>3 else ''
    res[sid]=(prop,verdict,re.findall(r'obligation="([^"]+)"',rest),rest)
rows=[]
for sid in sorted(os.listdir('/verif/seeded')):
    d='/verif/seeded/'+sid
    if not os.path.isdir(d): continue
    m=json.load(open(d+'/meta.json'))
    first=re.split(r'(?<=[.;])\s',m.get('summary',''))[0]
    if len(first)>170: first=first[:167]+'…'
    prop,verdict,obls,rest=res.get(sid,(sid.split('-')[0],'not-run',[],''))
    if verdict=='CAUGHT': o='; '.join('`'+x+'`' for x in obls[:2])
    elif verdict=='UNDECIDED': o='anchors of the rewritten function lost; nothing reported'
    else: o='—'
    note=' (re-based after the F1 repair)' if os.path.exists(d+'/patch.rebased.diff') else ''
    rows.append((sid,verdict+note,first.replace('|','\\|'),o))
cnt=collections.Counter(r[1].split()[0] for r in rows)
out=['## 11. Seeded changes: which obligation reports which change\n',
'`/verif/seeded/<id>/` holds %d changes written by independent sub-agents that were given only the text of one property'%len(rows),
'(later rounds: plus a focus area or the one-line summaries of earlier changes, to avoid repeats) and a scratch copy of the library',
'without any verification file. Each one was confirmed by me on a scratch copy (`tools/verify_seed.sh`, `tools/verify_seed2.sh`):',
'it applies, builds, is gofmt-clean, the unedited suite of 490 tests passes with it, its demonstration test fails with it and passes',
'without it. `tools/allmutants.sh` applies each one to a scratch copy of `/repo` HEAD and runs the quick check of its property',
'(frozen copies of the baseline and the engine, evidence to a scratch directory); the raw output is `seeded/RESULTS.txt` (later lines',
'override earlier ones for the same seed). Result: **%d reported as VIOLATION, %d undecided, %d missed**.\n'%(cnt['CAUGHT'],cnt['UNDECIDED'],cnt['missed']),
'| seed | result | what the change does | first obligations that fail |','|---|---|---|---|']
for r in rows: out.append('| %s | %s | %s | %s |'%r)
out.append(open('/verif/tools/seedtable_notes.md').read())
p='/verif/DESIGN.md'
s=open(p).read()
if '## 11. Seeded changes' in s: s=s[:s.index('## 11. Seeded changes')]
s=s.rstrip('\n')
if not s.endswith('-----'): s+='\n\n---------------------------------------------------------------------------------------------'
open(p,'w').write(s+'\n\n'+'\n'.join(out))
print(cnt)
