#!/bin/bash
# Runs every seeded change (or those matching $1) against the check of its own property, on a scratch copy of /repo's HEAD
# (so that /repo itself stays free for editing; the baseline and the engine binary are frozen copies too); evidence and replays of these runs go to a scratch directory.
pat=${1:-.}
scr=$(mktemp -d /tmp/mutrepo.XXXXXX)
trap 'rm -rf $scr $fz' EXIT
git -C /repo archive HEAD | tar -x -C $scr
(cd $scr && git init -q && git add -A && git -c user.email=x -c user.name=x commit -qm base)
fz=$(mktemp -d /tmp/mutfrozen.XXXXXX)
cp /verif/baseline/obligations.json $fz/baseline.json; cp /verif/bin/sctpvc $fz/sctpvc
export SCTPVC_EVIDENCE_DIR=$fz/evidence SCTPVC_REPLAY_DIR=$fz/replays SCTPVC_BASELINE_FILE=$fz/baseline.json
cd /verif
for d in seeded/*/; do
  id=$(basename $d); p=${id%%-*}
  echo "$id" | grep -Eq "$pat" || continue
  props="$p $(python3 -c "import json;print(' '.join(json.load(open('$d/meta.json')).get('also_checked_by',[])))" 2>/dev/null)"
  pf=$d/patch.diff
  # a seed written against a tree that a later fix: commit changed is carried over by hand as patch.rebased.diff
  if ! git -C $scr apply --check $(realpath $pf) 2>/dev/null && [ -f $d/patch.rebased.diff ]; then pf=$d/patch.rebased.diff; fi
  if ! git -C $scr apply --check $(realpath $pf) 2>/dev/null; then echo "$id $p PATCH-DOES-NOT-APPLY"; continue; fi
  git -C $scr apply $(realpath $pf)
  v=missed; obl=""
  for q in $props; do
    res=$($fz/sctpvc check $q --tier quick --repo $scr 2>&1)
    if echo "$res" | grep -q "^VIOLATION"; then v=CAUGHT; obl="$obl [$q] $(echo "$res" | grep -o 'obligation="[^"]*"' | head -2 | tr '\n' ' ')"; elif echo "$res" | grep -q UNDECIDED && [ $v = missed ]; then v=UNDECIDED; obl="$obl [$q] $(echo "$res" | grep UNDECIDED | head -1 | cut -c1-160)"; fi
  done
  echo "$id $p $v $obl"
  git -C $scr checkout -q -- . ; git -C $scr clean -fdq
done
