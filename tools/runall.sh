#!/bin/bash
# runs every claimed check (quick tier) on the current /repo tree; prints one line per property
cd /verif
for p in $(python3 -c "import json;print(' '.join(c['property_id'] for c in json.load(open('MANIFEST.json'))['checks']))"); do
  s=$(date +%s)
  out=$(./check $p --tier ${1:-quick} 2>&1); rc=$?
  echo "$p exit=$rc $(( $(date +%s)-s ))s $(echo "$out" | grep -cE '^VIOLATION') violations $(echo "$out" | grep -c '^KNOWN-FINDING') known"
  echo "$out" | grep -E '^VIOLATION|^UNDECIDED' | head -5
done
